#!/usr/bin/env python3
"""run the mutation campaign on every benign refactoring (mutating only the lines the refactoring changed): does the
tolerance for the refactored form keep the detection power?  results: selftest/mutation_variants.jsonl
usage: tools/mutate_variants.py [--jobs N] [--recheck] [--report]"""
import json, os, subprocess, sys
V = os.path.dirname(os.path.dirname(os.path.abspath(__file__)))
a = sys.argv[1:]
if "--report" not in a:
    extra = [x for x in a]
    for name in sorted(os.listdir(os.path.join(V, "selftest", "benign"))):
        d = os.path.join(V, "selftest", "benign", name)
        if not os.path.exists(os.path.join(d, "patch.diff")):
            continue
        subprocess.run([sys.executable, os.path.join(V, "tools", "mutate.py"), "--variant", d] + extra, stdout=subprocess.DEVNULL)
        print(name, flush=True)
rs = [json.loads(l) for l in open(os.path.join(V, "selftest", "mutation_variants.jsonl"))]
comp = [r for r in rs if r.get("compile")]
surv = [r for r in comp if r.get("tests") == "pass"]
killed = [r for r in comp if r.get("tests") in ("fail", "timeout")]
print("variant mutants %d  compile %d  test-survivors %d (reported %d)  test-killed %d (reported %d)" % (
    len(rs), len(comp), len(surv), sum(1 for r in surv if r["alarms"]), len(killed), sum(1 for r in killed if r["alarms"])))
for title, lst in (("survivors of the test suite that no check reports", surv), ("killed by tests, not reported by any check", killed)):
    print("\n== " + title)
    for r in lst:
        if not r["alarms"]:
            print("  %-52s %s" % (r["id"], r["new"].strip()[:100]))
