#!/usr/bin/env python3
"""try_refactors.py <worktree> <prefix>: run all checks on each behaviour-preserving refactoring of a sub-agent;
store them as selftest/benign/<prefix>-rN (silent) or selftest/limitations/<prefix>-rN (reported)."""
import json, os, shutil, subprocess, sys, tempfile
from concurrent.futures import ThreadPoolExecutor
V = os.path.dirname(os.path.dirname(os.path.abspath(__file__)))
wt, prefix = sys.argv[1], sys.argv[2]
ALL = ["C01", "C02", "C03", "C04", "C05", "C06", "C07", "C08", "C09", "C10", "C11", "C12", "C13", "C15", "C16"]


def one(rn):
    d = os.path.join(wt, "refactor", rn)
    scratch = tempfile.mkdtemp(prefix="xsgv-rf-")
    try:
        tree = os.path.join(scratch, "repo")
        shutil.copytree("/repo", tree, ignore=lambda p, n: [x for x in n if x in (".git", "target", "wasm")] if p == "/repo" else [])
        r = subprocess.run(["patch", "-p1", "-s", "--no-backup-if-mismatch", "-i", os.path.join(d, "patch.diff")], cwd=tree, capture_output=True, text=True)
        if r.returncode != 0:
            return rn, "PATCH-FAILS", {}
        env = dict(os.environ, CARGO_TARGET_DIR=os.path.join(scratch, "target"), CARGO_NET_OFFLINE="true")
        t = subprocess.run("cargo test --offline 2>&1 | grep -E '^test result' ", shell=True, cwd=tree, env=env, capture_output=True, text=True)
        suite_ok = t.stdout.count("test result: ok") >= 3 and "FAILED" not in t.stdout
        cenv = dict(os.environ, XSGV_REPO=tree, XSGV_NO_EVIDENCE="1")
        alarms = {}
        for p in ALL:
            c = subprocess.run([os.path.join(V, "check"), p], env=cenv, capture_output=True, text=True)
            if c.returncode != 0:
                alarms[p] = sorted({l.strip()[5:].split(" ")[0] for l in c.stdout.splitlines() if l.strip().startswith("rule=")}) or ["rc=%d" % c.returncode]
        return rn, "suite-ok" if suite_ok else "SUITE-FAILS", alarms
    finally:
        shutil.rmtree(scratch, ignore_errors=True)


rns = sorted(os.listdir(os.path.join(wt, "refactor")))
with ThreadPoolExecutor(max_workers=4) as ex:
    for rn, st, alarms in ex.map(one, rns):
        meta = json.load(open(os.path.join(wt, "refactor", rn, "meta.json")))
        print("%s-%s %-11s %s | %s" % (prefix, rn, st, "SILENT" if not alarms else "ALARMS %s" % alarms, meta["summary"][:110]))
        if st == "suite-ok":
            dest = os.path.join(V, "selftest", "benign" if not alarms else "limitations", "%s-%s" % (prefix, rn))
            for other in ("benign", "limitations"):
                shutil.rmtree(os.path.join(V, "selftest", other, "%s-%s" % (prefix, rn)), ignore_errors=True)
            os.makedirs(dest, exist_ok=True)
            shutil.copy(os.path.join(wt, "refactor", rn, "patch.diff"), dest)
            json.dump({"properties": ["-"], "expect_rule": "-", "desc": meta["summary"], "why_equivalent": meta.get("why_equivalent", ""),
                       "origin": "independent sub-agent asked for behaviour-preserving refactorings", "alarms": alarms}, open(os.path.join(dest, "meta.json"), "w"), indent=1)
