#!/usr/bin/env python3
"""convert_agent_out.py <worktree>: turn a sub-agent's out/vK.diff, out/vK_demo.rs, out/vK_meta.txt (lines `summary:`, `needs:`,
`files:`) into <worktree>/seeded/vK/{patch.diff,demo.rs,meta.json}, the layout tools/ingest_seeded.py reads."""
import json, os, shutil, sys
wt = sys.argv[1]
out = os.path.join(wt, "out")
for k in range(1, 10):
    d = os.path.join(out, "v%d.diff" % k)
    if not os.path.exists(d) or os.path.getsize(d) == 0:
        continue
    sd = os.path.join(wt, "seeded", "v%d" % k)
    os.makedirs(sd, exist_ok=True)
    shutil.copy(d, os.path.join(sd, "patch.diff"))
    shutil.copy(os.path.join(out, "v%d_demo.rs" % k), os.path.join(sd, "demo.rs"))
    meta = {}
    for line in open(os.path.join(out, "v%d_meta.txt" % k)):
        if ":" in line:
            a, b = line.split(":", 1)
            a = a.strip().lower()
            if a in ("summary", "needs"):
                meta[a] = b.strip()
            if a == "files":
                meta["files"] = [x.strip() for x in b.replace(",", " ").split()]
    json.dump(meta, open(os.path.join(sd, "meta.json"), "w"), indent=1)
    print("converted", sd)
