#!/usr/bin/env python3
"""ingest_seeded.py <worktree> <prop>: confirm each sub-agent variant independently in a scratch copy of /repo
(suite passes with the change, demo fails with it and passes without it), run the checks of /verif against it and
store it under /verif/seeded/<id>/ with what was run."""
import json, os, shutil, subprocess, sys, tempfile

VERIF = os.path.dirname(os.path.dirname(os.path.abspath(__file__)))
wt, prop = sys.argv[1], sys.argv[2]
tag = sys.argv[3] if len(sys.argv) > 3 else ""
ALL = ["C01", "C02", "C03", "C04", "C05", "C06", "C07", "C08", "C09", "C10", "C11", "C12", "C13", "C15", "C16"]


def sh(cmd, cwd, env=None, timeout=1200):
    r = subprocess.run(cmd, cwd=cwd, env=env, shell=isinstance(cmd, str), capture_output=True, text=True, timeout=timeout)
    return r.returncode, r.stdout + r.stderr


sd = os.path.join(wt, "seeded")
for v in sorted(os.listdir(sd)) if os.path.isdir(sd) else []:
    d = os.path.join(sd, v)
    if not os.path.exists(os.path.join(d, "patch.diff")):
        continue
    vid = "%s-%s%s" % (prop, tag, v)
    scratch = tempfile.mkdtemp(prefix="xsgv-ing-")
    try:
        tree = os.path.join(scratch, "repo")
        shutil.copytree("/repo", tree, ignore=lambda p, n: [x for x in n if x in (".git", "target", "wasm")] if p == "/repo" else [])
        env = dict(os.environ, CARGO_TARGET_DIR=os.path.join(scratch, "target"), CARGO_NET_OFFLINE="true")
        os.makedirs(os.path.join(tree, "tests"), exist_ok=True)
        shutil.copy(os.path.join(d, "demo.rs"), os.path.join(tree, "tests", "demo.rs"))
        rc0, out0 = sh("cargo test --offline --test demo 2>&1 | tail -5", tree, env)
        base_ok = "test result: ok" in out0
        rc, out = sh(["patch", "-p1", "-s", "--no-backup-if-mismatch", "-i", os.path.join(d, "patch.diff")], tree)
        if rc != 0:
            print(vid, "PATCH-FAILS", out[:200]); continue
        rc1, out1 = sh("cargo test --offline --test demo 2>&1 | tail -8", tree, env)
        demo_fails = "test result: FAILED" in out1 or "error: test failed" in out1
        os.remove(os.path.join(tree, "tests", "demo.rs"))
        rc2, out2 = sh("cargo test --offline 2>&1 | grep -E '^test result|error(\\[|:)' | head", tree, env)
        suite_ok = out2.count("test result: ok") >= 3 and "FAILED" not in out2 and "error" not in out2
        # checks
        cenv = dict(os.environ, XSGV_REPO=tree, XSGV_NO_EVIDENCE="1")
        detected = {}
        for p in ALL:
            c = subprocess.run([os.path.join(VERIF, "check"), p], env=cenv, capture_output=True, text=True)
            rules = sorted({l.strip().split(" ")[0][5:] for l in c.stdout.splitlines() if l.strip().startswith("rule=")})
            if "VIOLATION property=%s" % p in c.stdout:
                detected[p] = rules
            elif c.returncode == 2:
                detected[p] = ["CHECKER-FAILURE"]
        meta = json.load(open(os.path.join(d, "meta.json")))
        status = "confirmed" if (base_ok and demo_fails and suite_ok) else "rejected"
        print("%-10s %-9s base_demo_ok=%s demo_fails_with_change=%s suite_ok=%s detected_by=%s" % (vid, status, base_ok, demo_fails, suite_ok, {k: v[:3] for k, v in detected.items()}))
        print("           %s | needs: %s" % (meta.get("summary", "")[:160], meta.get("needs", "")[:160]))
        if status == "confirmed":
            out_d = os.path.join(VERIF, "seeded", vid)
            os.makedirs(out_d, exist_ok=True)
            shutil.copy(os.path.join(d, "patch.diff"), out_d)
            shutil.copy(os.path.join(d, "demo.rs"), out_d)
            meta.update({"property": prop, "origin": "independent sub-agent given only the property text and a scratch worktree",
                         "confirmed": {"suite_passes_with_change": suite_ok, "demo_fails_with_change": demo_fails, "demo_passes_without_change": base_ok,
                                       "how": "scratch copy of /repo; cargo test --offline (full suite, then --test demo with and without the patch)"},
                         "detected_by": sorted(k for k, v in detected.items() if v != ["CHECKER-FAILURE"]),
                         "rules": detected})
            json.dump(meta, open(os.path.join(out_d, "meta.json"), "w"), indent=1)
    finally:
        shutil.rmtree(scratch, ignore_errors=True)
