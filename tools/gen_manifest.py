#!/usr/bin/env python3
"""writes /verif/MANIFEST.json from the table below (single source of truth for claims)"""
import json, os

HERE = os.path.dirname(os.path.dirname(os.path.abspath(__file__)))
LIM = ("Alarm surface as measured (DESIGN.md 10.2e): this pack checks conformance to the shapes today's mechanism is written in; it keeps its "
       "verdict only while it still recognises the mechanism. Two rounds of twelve behaviour-preserving clean-ups, written by independent agents "
       "after the rules were last changed and run untouched, gave 5 of 12 and then 7 of 12 silent at first contact - the rest were reported with "
       "behaviour unchanged. After generalising on them, 131 of all 142 stored probes are silent (in-sample); 11 stay reported "
       "(selftest/limitations/: protocol redesigns between mechanism functions, data-layout splits of the identifier map, pipeline rewrites of "
       "the naming code, a field type that is the product of two independent choices, a helper returning Option<String>, a presence test through the crate's own PartialEq impl). During development the "
       "packs lost recognition on equivalent rewrites nobody had flagged, several times. A report of a `roles`, `inventory`, `renderer-model` or "
       "`not recognised` rule means `re-confirm the mechanism`, and can be an alarm on correct code. ")
TB = ("Trusted base: rustc nightly MIR (mir-opt-level=0) of /repo's current working tree as produced by the real cargo build "
      "flags; std, quick-xml 0.37.5, convert_string 0.2.0, clap and log behave as documented. ")

CHECKS = {
    "C05": dict(cat="proof", tech="static analysis: MIR source/discharge scan (hash-order discipline, nondeterminism-source inventory)", ref="DESIGN.md section 4 C05, section 3 A1",
                text="Decides the property for the library: every source of run-to-run variation (hash iteration order, addresses as integers, clock, env, pid/thread identity, randomness, statics, thread-locals, interior mutability) is enumerated from the MIR of every body and must be discharged by the hash-order discipline; with no undischarged source, safe Rust without shared state computes a function of (bytes, options). obligations = rule instances, all must hold.",
                note=TB + "quick-xml's reader is deterministic; convert_string is scanned by the same rules in the thorough tier."),
    "C07": dict(lim=True, cat="other", tech="static analysis: MIR panic-site inventory with checked discharge patterns, loop progress witnesses, recursion descent witnesses", ref="DESIGN.md section 4 C07, section 3 A2",
                text="Every panic-capable construct in every library body (Assert terminators, denylisted or #[track_caller] foreign callees, diverging/indirect calls) must match a discharge pattern verified on the MIR; every natural loop needs a progress witness on every cycle with its exhausted/Eof/Err outcome leaving the loop; every recursive call needs a structural-descent witness. Full for the crate's own code modulo the listed assumptions; panics inside dependencies and exact stack need are not decided.",
                note=TB + "Counters of >=32 bits incremented once per occurrence do not overflow (input of several GiB); nesting <= 200 as the property states; allocation failure out of scope."),
    "C08": dict(lim=True, cat="other", tech="static analysis: error-discipline dataflow over MIR (Result propagation, constructor provenance inventory, event-class effect summaries)", ref="DESIGN.md section 4 C08, section 3 A3/A4",
                text="Decides that no error is swallowed, softened or invented by the crate: each Result (and Option<Result> iterator item) is propagated on every path; the closed inventory of ParserError constructors obeys provenance rules (reader position + reader error in the Err arm; attribute error payload; strict from_utf8; no-root only after the loop); no lenient conversion or reader configuration; ignored event kinds have no effect. Not decided: quick-xml's own verdicts.",
                note=TB + "The caller supplies a default-configured reader."),
    "C12": dict(lim=True, cat="other", tech="static analysis: effect-order/dominance rules and symbolic sink values over the binary's MIR", ref="DESIGN.md section 4 C12, section 3 A7",
                text="Decides everything the property states given std/clap/log semantics: output effects only after both the read and the parse succeeded; sink value = the property's header + library rendering of the parsed root with options derived from --parser/--derive/--sort; file branch writes `{}` only and nothing to stdout; stdout branch prints `{}\\n` and touches no file; conversion tables, value names and defaults; error handler = stderr diagnostic, no stdout, always exit(1). The CLI has no tests at all.",
                note=TB + "Exit status 0 follows from main returning; the program's own (non-derive) code contains no panic-capable construct (A2 inventory over the binary, R12.9); env_logger configuration analysed in the thorough tier."),
    "C15": dict(lim=True, cat="other", tech="static analysis: shape rules + path-enumerated outcome table of the merge function's MIR", ref="DESIGN.md section 4 C15, section 3 A9",
                text="For the nested-loop implementation shape: result created empty and append-only; each parameter traversed front to back without adapters and to exhaustion; every path of an iteration (flags and tags tracked) pushes exactly the tag the specification table demands. These facts imply union, exactly-once for duplicate-free inputs, conjunction of necessity and stable order. Forms written with find/any/position/contains are normalised into loops first (DESIGN.md 10.2c); any other shape is reported as not recognised.",
                note=TB + "PartialEq of the item type is an equivalence."),

    "C01": dict(lim=True, cat="other", tech="static analysis: parser-mechanism conformance rules over MIR (event classes, control/data dependence of the inference mechanism), unsound direction", ref="DESIGN.md section 4 C01/C03/C06 (PM pack)",
                text="Partial: does NOT decide that the structs admit every source document. Decides the PM obligations whose violation makes the schema too strict or drops structure (event classes incl. CData, repeat detection, demotion of children absent from an occurrence, attribute collection and conjunction of necessity, re-insertion, extension = same engine, one field per tree node with Option/Vec/String chosen by the node's flags). Each is a necessary condition of the behaviour; the behaviour itself quantifies over all trees and is out of reach of a static argument.",
                note=TB + "Conformance to today's mechanism; a redesign is reported as not recognised. quick-xml's event stream is trusted."),
    "C03": dict(lim=True, cat="other", tech="static analysis: parser-mechanism conformance rules over MIR in both directions (PM1-PM16) + merge outcome table", ref="DESIGN.md section 4 C01/C03/C06 (PM pack)",
                text="Partial: does NOT decide the iff (exactness depends on the counter trick over all interleavings). Decides mechanism conformance in both directions: set_multiple exactly under seen.contains(name), counter incremented once per repeat, snapshot = exactly the Mandatory children, demotion set = unchanged-or-absent and nothing else, Empty demotes with an empty snapshot, String typing condition, Option iff Optional, Vec iff not standalone, text field iff text.",
                note=TB + "Frozen, hand-confirmed instance table; behaviour-preserving redesigns of the mechanism are reported (documented limitation)."),
    "C06": dict(lim=True, cat="other", tech="static analysis: structural rules over MIR (delegation to the same engine, statelessness, monotone field writes, by-value signature, Result propagation)", ref="DESIGN.md section 4 C01/C03/C06 (PM13-PM15)",
                text="Partial: does NOT decide order-independence or idempotence. Decides: extension = fresh wrapper + previous root as its child + the same event loop + the same root extraction; no hidden state; standalone only cleared, text only set, children never replaced, removed children re-inserted; attribute necessity is a conjunction; previous structure by value and every Result propagated, so a failed extension yields Err and no partial result.",
                note=TB + "Algebraic laws over histories are not decided."),
    "C09": dict(lim=True, cat="other", tech="static analysis: renderer emission model over MIR (dominance order of emission sites, sort keys per option alternative, field write discipline)", ref="DESIGN.md section 4 C09, section 3 A6",
                text="Near-full for the code's own part: emission groups ordered header, attributes, text, children, closing brace, child structs (pre-order); children sorted by position (Unsorted) or name (XmlName), attributes sorted by name only under XmlName; stored attribute order = first appearance (constructor keeps order, merge(self, new) with the merge's order rules); position written once, guarded, = children.len() before insertion. Not decided: uniqueness of sort keys for hand-built trees.",
                note=TB + "sort_unstable_by_key, Vec::push and iterators behave as documented."),
    "C10": dict(lim=True, cat="other", tech="static analysis: non-interference by signatures and complete per-field use sets (control/data dependence) in the renderer's MIR", ref="DESIGN.md section 4 C10, section 3 A6",
                text="Decides the property for the code: only the renderer can see Options (signatures, no shared state); inside it every read of every Options field is classified and must be one of: derive -> is_empty controlling only the derive emission + its display argument; sort -> tests whose alternatives only sort local clones; attribute_prefix -> first argument of the serde-name template used only by the rename guard and rename emission; text_identifier -> the text rename's argument; renames emitted exactly under identifier != bound name; the bound attribute name is the full name exactly for namespace declarations (predicate = starts with \"xmlns:\" in an enumerated idiom) and remove_namespace(name) otherwise; presets/builder are plain constructors.",
                note=TB + "Display of String is verbatim."),
    "C11": dict(lim=True, cat="other", tech="static analysis: non-interference by dependence over MIR (value payloads never read, presence-only reads of text, sibling-arm agreement, no reader configuration, no hash order)", ref="DESIGN.md section 4 C11",
                text="Mostly decided: attribute values never read; text payload flows only into Element.text whose every read is is_some/is_none/discriminant; Text and CData both set the flag, ignored kinds are no-ops; no reader configuration is set or read; Start/Empty arms agree (same tag parser, seen list, demotion in both, demotion order = vector order). Not decided: full observational equivalence of <x/> and <x></x> for every history; buffer-size independence of quick-xml.",
                note=TB + "quick-xml yields the same events for the same bytes regardless of chunking."),
    "C16": dict(lim=True, cat="other", tech="static analysis: guard rules over MIR for every insertion into Element.children, inspection of lookup predicates", ref="DESIGN.md section 4 C16, section 3 A10",
                text="Partial: every insertion into a children vector is guarded by a name-only absence test of the inserted child's own name or re-inserts the value just removed; lookups/removal compare the name only and remove the found index; adding a present name is a no-op and an absent name is always appended as Mandatory (the insertion depends on the name lookup only; Element::eq implies equal names, Necessity::eq implies equal payloads); lookups scan the whole list; no traversal of children/attributes is shortened; mark-optional re-inserts the removed value (subtree kept); renderer emits one field per child/attribute. Not decided: step-by-step model equivalence, output well-formedness.",
                note=TB + "Induction over operation sequences with Element::new as base case is a hand argument."),
    "C04": dict(lim=True, cat="other", tech="static analysis: guard cross-check between sibling identifier producers (reserved-word and uniqueness guards on every path to an identifier slot)", ref="DESIGN.md section 4 C04",
                text="Partial: field identifiers reach their template slots only through to_valid_key and a single reservation list that records a name only when not yet contained (holds); struct identifiers are demanded the same and fail both guards - two known findings confirmed on the real code (reserved/prelude names, duplicate struct names); header slot and field-type slot of a child are the same function of the same trace, the name is cut from the own-name end of that trace over at least the hinted length, and names collected at several positions get the computed separating length; every emitted line is one of the output grammar's templates written out exactly; the identifier map covers every child and attribute and is read back under the key it was stored with; every element gets a name hint >= 1. Not decided: sufficiency of the guards for all names.",
                note=TB + "convert_string::to_valid_key yields a legal non-keyword identifier."),
    "C02": dict(lim=True, cat="other", tech="static analysis: constant-table agreement (preset constants from MIR vs key literals of the locked deserializer sources) + renderer use sets + output-template grammar + the C04 and C01 rule packs as necessary conditions", ref="DESIGN.md section 4 C13/C02, section 3 A8",
                text="Partial, necessary conditions only: (a) binding-key agreement - the quick-xml preset's text identifier and attribute prefix are keys the locked quick-xml deserializer recognises, the default derive list names macros in scope incl. Deserialize, and the renderer binds text/attributes through exactly these fields; (b) the output-template grammar and the C04 identifier/struct-name rules (a duplicate or illegal name does not compile; C04's two known findings are listed for this property too); (c) the soundness-direction mechanism rules of C01 (a schema that does not admit a source document cannot deserialize it). Compilation, from_str success and deny_unknown_fields themselves are NOT decided (they need rustc and the deserializer to run).",
                note=TB + "Registry sources of the version named in Cargo.lock are what generated code is compiled against."),
    "C13": dict(lim=True, cat="other", tech="static analysis: constant-table agreement (preset constants from MIR vs key literals of the locked deserializer sources) + renderer use sets + output-template grammar + the C04 and C01 rule packs as necessary conditions", ref="DESIGN.md section 4 C13/C02, section 3 A8",
                text="Partial, necessary conditions only: the binding-key agreement clause for the serde-xml-rs preset - violated today ($text vs serde-xml-rs 0.6.0's $value: text content is dropped), a known finding confirmed on the real crates, not repairable without editing a pinned test - plus, as for C02, the default derive list, the output-template grammar, the C04 identifier/struct-name rules (its two known findings listed here too) and the soundness-direction rules of C01. Compilation and from_str success themselves are NOT decided.",
                note=TB + "Registry sources of the version named in Cargo.lock."),
}

NA = {
    "C14": "The property is about the string values the naming code produces (PascalCase form, ancestor qualification only when needed, the shortest "
           "qualification that separates). Those are values computed by loops over runtime strings; no static argument in reach bounds them. A partial "
           "claim was built and withdrawn: its rules restated today's code shape (exact suffix slice, constant 1 under `len == 1`) and alarmed on "
           "behaviour-preserving rewrites (`traces.len() == 0`, no shortcut at all), while the clause a user relies on - qualification only when needed - "
           "stayed undecided (DESIGN.md section 4 C14, section 10.2). The structural parts that are necessary conditions of *other* properties are "
           "checked there: emission order under C09 (R9.1), trace discipline, hint totality, direction and range of the search, suffix cut and the "
           "computed length for shared names under C04 (G3, H1-H7). selftest/undecided/ holds three changes that alter the names and that nothing reports.",
}
PENDING = "check under construction in this round (DESIGN.md section 8)"


def main():
    props = [json.loads(l)["id"] for l in open(os.path.join(HERE, "properties.jsonl"))]
    checks = []
    for p in props:
        if p in CHECKS:
            c = CHECKS[p]
            checks.append({
                "property_id": p,
                "quick_cmd": "./check %s --tier quick" % p,
                "thorough_cmd": "./check %s --tier thorough" % p,
                "evidence_file": "/verif/evidence/%s.json" % p,
                "replay_cmd_template": "./check %s --replay {path}" % p,
                "engine": "xsgv",
                "level_claimed": {"category": c["cat"], "text": c["text"], "design_ref": c["ref"]},
                "level_note": c["note"] + (" " + LIM if c.get("lim") else ""),
                "technique": c["tech"],
            })
    na = [{"property_id": p, "reason": NA.get(p, PENDING)} for p in props if p not in CHECKS]
    m = {
        "version": 1,
        "setup_cmd": "cd /verif/driver && CARGO_NET_OFFLINE=true cargo +nightly build --release --offline && cd /verif && python3 -m xsgv.extract default",
        "hooks": {
            "guard": "xsgv_verif",
            "enable": "none needed: static analysis reads /repo's sources through a rustc_private driver; no instrumentation is compiled into the crate",
            "baseline_off_cmd": "cd /repo && cargo test --workspace --no-fail-fast --offline",
            "source_commits": [],
            "add_only": True,
        },
        "engines": [{
            "name": "xsgv", "path": "/verif/xsgv (rules) + /verif/driver (rustc_private MIR fact extractor)",
            "serves_properties": sorted(CHECKS),
            "kind_free_text": "custom static analyser: MIR facts of the type-checked crate (resolved callees, typed places, constants, fmt templates) + python rule packs (CFG, dominators, control dependence, loops, slices, path walks)",
        }],
        "checks": checks,
        "not_applicable": na,
        "notes": "Three genuine defects were repaired in /repo as unguarded `fix:` commits (see known_findings.json `fixed`). exit 0 = holds, 1 = VIOLATION line, 2 = checker failure (tree does not compile / facts missing).",
    }
    json.dump(m, open(os.path.join(HERE, "MANIFEST.json"), "w"), indent=1)
    print("MANIFEST.json: %d checks, %d not_applicable" % (len(checks), len(na)))


if __name__ == "__main__":
    main()
