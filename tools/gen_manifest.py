#!/usr/bin/env python3
"""writes /verif/MANIFEST.json from the table below (single source of truth for claims)"""
import json, os

HERE = os.path.dirname(os.path.dirname(os.path.abspath(__file__)))
TB = ("Trusted base: rustc nightly MIR (mir-opt-level=0) of /repo's current working tree as produced by the real cargo build "
      "flags; std, quick-xml 0.37.5, convert_string 0.2.0, clap and log behave as documented. ")

CHECKS = {
    "C05": dict(cat="proof", tech="static analysis: MIR source/discharge scan (hash-order discipline, nondeterminism-source inventory)", ref="DESIGN.md section 4 C05, section 3 A1",
                text="Decides the property for the library: every source of run-to-run variation (hash iteration order, addresses as integers, clock, env, pid/thread identity, randomness, statics, thread-locals, interior mutability) is enumerated from the MIR of every body and must be discharged by the hash-order discipline; with no undischarged source, safe Rust without shared state computes a function of (bytes, options). obligations = rule instances, all must hold.",
                note=TB + "quick-xml's reader is deterministic; convert_string is scanned by the same rules in the thorough tier."),
    "C07": dict(cat="other", tech="static analysis: MIR panic-site inventory with checked discharge patterns, loop progress witnesses, recursion descent witnesses", ref="DESIGN.md section 4 C07, section 3 A2",
                text="Every panic-capable construct in every library body (Assert terminators, denylisted or #[track_caller] foreign callees, diverging/indirect calls) must match a discharge pattern verified on the MIR; every natural loop needs a progress witness on every cycle with its exhausted/Eof/Err outcome leaving the loop; every recursive call needs a structural-descent witness. Full for the crate's own code modulo the listed assumptions; panics inside dependencies and exact stack need are not decided.",
                note=TB + "Counters of >=32 bits incremented once per occurrence do not overflow (input of several GiB); nesting <= 200 as the property states; allocation failure out of scope."),
    "C08": dict(cat="other", tech="static analysis: error-discipline dataflow over MIR (Result propagation, constructor provenance inventory, event-class effect summaries)", ref="DESIGN.md section 4 C08, section 3 A3/A4",
                text="Decides that no error is swallowed, softened or invented by the crate: each Result (and Option<Result> iterator item) is propagated on every path; the closed inventory of ParserError constructors obeys provenance rules (reader position + reader error in the Err arm; attribute error payload; strict from_utf8; no-root only after the loop); no lenient conversion or reader configuration; ignored event kinds have no effect. Not decided: quick-xml's own verdicts.",
                note=TB + "The caller supplies a default-configured reader."),
    "C12": dict(cat="other", tech="static analysis: effect-order/dominance rules and symbolic sink values over the binary's MIR", ref="DESIGN.md section 4 C12, section 3 A7",
                text="Decides everything the property states given std/clap/log semantics: output effects only after both the read and the parse succeeded; sink value = the property's header + library rendering of the parsed root with options derived from --parser/--derive/--sort; file branch writes `{}` only and nothing to stdout; stdout branch prints `{}\\n` and touches no file; conversion tables, value names and defaults; error handler = stderr diagnostic, no stdout, always exit(1). The CLI has no tests at all.",
                note=TB + "Exit status 0 follows from main returning; env_logger configuration analysed in the thorough tier."),
    "C15": dict(cat="other", tech="static analysis: shape rules + path-enumerated outcome table of the merge function's MIR", ref="DESIGN.md section 4 C15, section 3 A9",
                text="For the nested-loop implementation shape: result created empty and append-only; each parameter traversed front to back without adapters and to exhaustion; every path of an iteration (flags and tags tracked) pushes exactly the tag the specification table demands. These facts imply union, exactly-once for duplicate-free inputs, conjunction of necessity and stable order. A rewrite into combinators is reported as shape-not-recognised (documented limitation).",
                note=TB + "PartialEq of the item type is an equivalence."),
}

NA = {
    "C14": "quantifies over the string values of generated names (PascalCase form, nearest-ancestor qualification, minimal disambiguation); the only structural facts in reach restate the implementation and realistic breakages (wrong ancestors, off-by-one in the hint) are invisible to shape rules - no sound static argument bounds the string semantics (DESIGN.md section 4 C14)",
}
PENDING = "check under construction in this round (DESIGN.md section 8)"


def main():
    props = [json.loads(l)["id"] for l in open(os.path.join(HERE, "properties.jsonl"))]
    checks = []
    for p in props:
        if p in CHECKS:
            c = CHECKS[p]
            checks.append({
                "property_id": p,
                "quick_cmd": "./check %s --tier quick" % p,
                "thorough_cmd": "./check %s --tier thorough" % p,
                "evidence_file": "/verif/evidence/%s.json" % p,
                "replay_cmd_template": "./check %s --replay {path}" % p,
                "engine": "xsgv",
                "level_claimed": {"category": c["cat"], "text": c["text"], "design_ref": c["ref"]},
                "level_note": c["note"],
                "technique": c["tech"],
            })
    na = [{"property_id": p, "reason": NA.get(p, PENDING)} for p in props if p not in CHECKS]
    m = {
        "version": 1,
        "setup_cmd": "cd /verif/driver && CARGO_NET_OFFLINE=true cargo +nightly build --release --offline && cd /verif && python3 -m xsgv.extract default",
        "hooks": {
            "guard": "xsgv_verif",
            "enable": "none needed: static analysis reads /repo's sources through a rustc_private driver; no instrumentation is compiled into the crate",
            "baseline_off_cmd": "cd /repo && cargo test --workspace --no-fail-fast --offline",
            "source_commits": [],
            "add_only": True,
        },
        "engines": [{
            "name": "xsgv", "path": "/verif/xsgv (rules) + /verif/driver (rustc_private MIR fact extractor)",
            "serves_properties": sorted(CHECKS),
            "kind_free_text": "custom static analyser: MIR facts of the type-checked crate (resolved callees, typed places, constants, fmt templates) + python rule packs (CFG, dominators, control dependence, loops, slices, path walks)",
        }],
        "checks": checks,
        "not_applicable": na,
        "notes": "Three genuine defects were repaired in /repo as unguarded `fix:` commits (see known_findings.json `fixed`). exit 0 = holds, 1 = VIOLATION line, 2 = checker failure (tree does not compile / facts missing).",
    }
    json.dump(m, open(os.path.join(HERE, "MANIFEST.json"), "w"), indent=1)
    print("MANIFEST.json: %d checks, %d not_applicable" % (len(checks), len(na)))


if __name__ == "__main__":
    main()
