#!/usr/bin/env python3
"""Mutation campaign against the checker (validation tool, not a registered check).

Generates small syntactic mutants of /repo's non-test source, and for each one records
  compile: does `cargo check` accept it           tests: does the pinned test suite still pass
  alarms:  which properties/rules of /verif report it (static checks only, XSGV_REPO=<mutant tree>)
Survivors of the test suite that no check reports are either equivalent mutants or gaps of the checker; they are
triaged by hand (tools/mutate.py --report).  Scratch space: /tmp/xsgv-mut (removed with --clean).

usage: tools/mutate.py [--jobs N] [--files a.rs,b.rs] [--ops op1,op2] [--limit N] [--only-survivors]
       tools/mutate.py --report
"""
import json, multiprocessing, os, re, shutil, subprocess, sys, hashlib

V = os.path.dirname(os.path.dirname(os.path.abspath(__file__)))
ROOT = "/tmp/xsgv-mut"
ALL = ["C01", "C02", "C03", "C04", "C05", "C06", "C07", "C08", "C09", "C10", "C11", "C12", "C13", "C15", "C16"]
SRC = ["src/parser.rs", "src/element.rs", "src/element/identifier.rs", "src/necessity.rs", "src/main.rs", "src/lib.rs", "src/options.rs", "src/args.rs"]


def code_lines(path):
    """(lineno, text) of non-test, non-comment lines"""
    out = []
    lines = open(path).read().split("\n")
    for i, l in enumerate(lines):
        if l.strip().startswith("#[cfg(test)]") and i + 1 < len(lines) and lines[i + 1].strip().startswith("mod "):
            break
        st = l.strip()
        if not st or st.startswith("//") or st.startswith("#["):
            continue
        out.append((i, l))
    return lines, out


def sub_each(line, pat, repl):
    """all single-occurrence substitutions of pat in line"""
    res = []
    for m in re.finditer(pat, line):
        new = line[:m.start()] + m.expand(repl) + line[m.end():]
        if new != line:
            res.append(new)
    return res


OPS = [
    ("eq-ne", r" == ", " != "), ("ne-eq", r" != ", " == "),
    ("lt-le", r" < ", " <= "), ("le-lt", r" <= ", " < "), ("gt-ge", r" > ", " >= "), ("ge-gt", r" >= ", " > "),
    ("and-or", r" && ", " || "), ("or-and", r" \|\| ", " && "),
    ("drop-not", r"(\bif |\(|&& |\|\| |=> |= |return )!(?=[\w(])", r"\1"),
    ("add-not", r"\bif (?!let\b)(?!!)([\w.]+\()", r"if !\1"),
    ("true-false", r"\btrue\b", "false"), ("false-true", r"\bfalse\b", "true"),
    ("mand-opt", r"\bMandatory\b", "Optional"), ("opt-mand", r"\bOptional\b", "Mandatory"),
    ("iter-skip", r"\.iter\(\)", ".iter().skip(1)"), ("iter-rev", r"\.iter\(\)", ".iter().rev()"), ("iter-take", r"\.iter\(\)", ".iter().take(2)"),
    ("into-iter-skip", r"\.into_iter\(\)", ".into_iter().skip(1)"), ("into-iter-rev", r"\.into_iter\(\)", ".into_iter().rev()"),
    ("iter-mut-skip", r"\.iter_mut\(\)", ".iter_mut().skip(1)"),
    ("attrs-skip", r"\.attributes\(\)(?= \{|;)", ".attributes().skip(1)"),
    ("zero-one", r"\b0\b(?!\.)", "1"), ("one-zero", r"\b1\b(?!\.)", "0"), ("one-two", r"\b1\b(?!\.)", "2"),
    ("plus-minus", r" \+ ", " - "), ("pluseq-minuseq", r" \+= ", " -= "),
    ("break-continue", r"\bbreak;", "continue;"), ("drop-break", r"\bbreak;", ""),
    ("continue-break", r"\bcontinue;", "break;"),
    ("push-insert0", r"\.push\(", ".insert(0, "), ("push-front", r"\.push_back\(", ".push_front("), ("pop-front", r"\.pop_front\(\)", ".pop_back()"),
    ("cmp-swap", r"(\w[\w.()]*)\.cmp\(&?(\w[\w.()]*)\)", r"\2.cmp(&\1)"),
    ("lower", r"(to_str\([^;]*?\)\?)", r"\1.to_lowercase()"),
    ("some-none", r"= Some\([^;]*\);", "= None;"),
    ("is-some-none", r"\.is_some\(\)", ".is_none()"), ("is-none-some", r"\.is_none\(\)", ".is_some()"),
    ("is-empty", r"!(\w[\w.]*)\.is_empty\(\)", r"\1.is_empty()"), ("is-empty2", r"(?<!!)\b(\w[\w.]*)\.is_empty\(\)", r"!\1.is_empty()"),
    ("unwrap-or", r"\.unwrap_or\(0\)", ".unwrap_or(1)"),
    ("min-max", r"\.min\(\)", ".max()"), ("max-min", r"\.max\(\)", ".min()"),
    ("first-last", r"\.first\(\)", ".last()"), ("last-first", r"\.last\(\)", ".first()"),
    ("ok-unit-early", r"^(\s*)(\w[\w.]*\.(?:set_\w+|add_\w+|push\w*|insert|merge_\w+|remove\w*|increment\w*|sort\w*|extend|clear|retain|dedup\w*|truncate|pop\w*)\([^;]*\);)\s*$", r"\1// \2"),
    ("str-lit", r'"([^"\\{}]{2,})"', lambda m: '"' + m.group(1)[:-1] + '"'),
    ("exit-code", r"exit\(1\)", "exit(0)"),
    ("len-minus", r"\.len\(\)(?! [-+])", ".len() + 1"),
    ("contains-not", r"(?<!!)(\b\w[\w.]*\.contains(?:_key)?\()", r"!\1"),
    ("swap-args", r"\((\w+), (\w+)\)", r"(\2, \1)"),
    ("vec-opt", r"\bVec<", "Option<"),
    # second batch: mutants designed to survive ordinary tests
    ("iter-take50", r"\.iter\(\)", ".iter().take(50)"), ("into-iter-take50", r"\.into_iter\(\)", ".into_iter().take(50)"),
    ("attrs-take50", r"\.attributes\(\)(?= \{|;)", ".attributes().take(50)"),
    ("iter-skipwhile", r"\.iter\(\)", ".iter().skip_while(|x| false && x as *const _ as usize == 0)"),
    ("local-name", r"\.name\(\)", ".local_name()"),
    ("q-default", r"(to_str\([^;?]*?\))\?", r"\1.unwrap_or_default()"),
    ("trim", r"\.to_string\(\)", ".trim().to_string()"),
    ("lower2", r"\.to_string\(\)", ".to_lowercase()"),
    ("eq-nocase", r"(\b[\w.]+) == (\*?[\w.]+)(?=[ )])", r"\1.to_string().eq_ignore_ascii_case(&\2.to_string())"),
    ("len-plus", r"Some\(self\.children\.len\(\)\)", "Some(self.children.len() + 1)"),
    ("sort-swap", r"SortBy::XmlName =>", "SortBy::Unsorted =>"),
    ("stable-sort", r"sort_unstable_by_key", "sort_by_cached_key"),
    ("dedup", r"^(\s*)(let mut (\w+) = Vec::new\(\);)$", r"\1\2 \3.dedup();"),
    ("count-gt", r"\.count\(\)", ".count().min(3)"),
    ("position-rev", r"\.position\(", ".rposition("),
    ("find-last", r"\.find\(", ".filter(|_| true).last().into_iter().find("),
    ("min1", r"\+= 1;", "+= 2;"),
    ("q-unwrap", r"(to_str\([^;?]*?\))\?", r"\1.unwrap()"),
    ("err-continue", r"Err\(e\) => return Err\([^;]*\),", "Err(_) => continue,"),
    ("err-break", r"Err\(e\) => return Err\([^;]*\),", "Err(_) => break,"),
    ("eof-continue", r"Ok\(Event::Eof\) => break,", "Ok(Event::Eof) => continue,"),
    ("q-ok", r"\)\?;", ").ok();"),
    ("clone-default", r"= self\.children\.clone\(\);", "= self.children.iter().take(64).cloned().collect::<Vec<_>>();"),
]


BASE = "/repo"
ONLY_LINES = None     # {file: set(line numbers)} restriction (mutating a refactored variant: only the lines it changed)


def generate(files, ops):
    muts = []
    for f in files:
        path = os.path.join(BASE, f)
        if not os.path.exists(path):
            continue
        lines, code = code_lines(path)
        for (i, l) in code:
            if ONLY_LINES is not None and (i + 1) not in ONLY_LINES.get(f, ()):
                continue
            for op in OPS:
                name, pat, repl = op
                if ops and name not in ops:
                    continue
                if callable(repl):
                    news = []
                    for m in re.finditer(pat, l):
                        news.append(l[:m.start()] + repl(m) + l[m.end():])
                else:
                    news = sub_each(l, pat, repl)
                for k, new in enumerate(news):
                    if new == l:
                        continue
                    mid = "%s:%d:%s:%d" % (f, i + 1, name, k)
                    muts.append({"id": mid, "file": f, "line": i, "op": name, "old": l, "new": new})
    return muts


def run(cmd, cwd, env, timeout):
    try:
        p = subprocess.run(cmd, cwd=cwd, env=env, stdout=subprocess.PIPE, stderr=subprocess.STDOUT, text=True, timeout=timeout)
        return p.returncode, p.stdout
    except subprocess.TimeoutExpired:
        return 124, "timeout"


def work(m):
    w = multiprocessing.current_process()._identity[0] if multiprocessing.current_process()._identity else 0
    base = os.path.join(ROOT, "w%d" % w)
    tree = os.path.join(base, "repo")
    os.makedirs(base, exist_ok=True)
    subprocess.run(["rsync", "-a", "--delete", "--exclude", ".git", "--exclude", "target", "--exclude", "wasm", BASE + "/", tree + "/"], check=True)
    p = os.path.join(tree, m["file"])
    lines = open(p).read().split("\n")
    assert lines[m["line"]] == m["old"]
    lines[m["line"]] = m["new"]
    open(p, "w").write("\n".join(lines))
    env = dict(os.environ, CARGO_NET_OFFLINE="true", CARGO_TARGET_DIR=os.path.join(base, "target"), XSGV_REPO=tree, XSGV_NO_EVIDENCE="1",
               XSGV_WORK=os.path.join(base, "work"), RUSTFLAGS="-Awarnings")
    res = dict(m)
    rc, out = run(["cargo", "check", "--offline", "--lib", "--bins", "-q"], tree, env, 300)
    res["compile"] = rc == 0
    if rc != 0:
        return res
    if not ONLY_CHECKS:
        rc, out = run(["cargo", "test", "--offline", "-q", "--no-fail-fast"], tree, env, 240)
        res["tests"] = "pass" if rc == 0 else ("timeout" if rc == 124 else "fail")
    env.pop("RUSTFLAGS")
    env.pop("CARGO_TARGET_DIR")
    alarms = {}
    for prop in ALL:
        rc, out = run([os.path.join(V, "check"), prop], V, env, 300)
        if rc != 0:
            alarms[prop] = sorted({l.strip()[5:].split(" ")[0] for l in out.splitlines() if l.strip().startswith("rule=")}) or ["rc=%d" % rc]
    res["alarms"] = alarms
    return res


ONLY_CHECKS = False


def report():
    rs = [json.loads(l) for l in open(os.path.join(V, "selftest", "mutation_results.jsonl"))]
    comp = [r for r in rs if r.get("compile")]
    surv = [r for r in comp if r.get("tests") == "pass"]
    killed = [r for r in comp if r.get("tests") in ("fail", "timeout")]
    print("mutants %d  compile %d  test-survivors %d (reported %d)  test-killed %d (reported %d)" % (
        len(rs), len(comp), len(surv), sum(1 for r in surv if r["alarms"]), len(killed), sum(1 for r in killed if r["alarms"])))
    print("\n== survivors of the test suite that no check reports")
    for r in surv:
        if not r["alarms"]:
            print("  %-40s %s" % (r["id"], r["new"].strip()[:110]))
    print("\n== killed by tests, not reported by any check")
    for r in killed:
        if not r["alarms"]:
            print("  %-40s %s" % (r["id"], r["new"].strip()[:110]))


def prepare_variant(vdir):
    """base tree = /repo + the variant's patch; returns the lines the patch added (new numbering)"""
    global BASE, ONLY_LINES
    name = os.path.basename(vdir.rstrip("/"))
    base = os.path.join(ROOT, "base-" + name)
    shutil.rmtree(base, ignore_errors=True)
    os.makedirs(ROOT, exist_ok=True)
    subprocess.run(["rsync", "-a", "--exclude", ".git", "--exclude", "target", "--exclude", "wasm", "/repo/", base + "/"], check=True)
    pf = os.path.abspath(os.path.join(vdir, "patch.diff"))
    subprocess.run(["patch", "-p1", "-s", "--no-backup-if-mismatch", "-i", pf], cwd=base, check=True)
    lines = {}
    cur, n = None, 0
    for l in open(pf):
        if l.startswith("+++ "):
            cur = l[4:].strip().split("\t")[0]
            cur = cur[2:] if cur.startswith("b/") else cur
        elif l.startswith("@@"):
            n = int(re.search(r"\+(\d+)", l).group(1)) - 1
        elif cur and l.startswith("+") and not l.startswith("+++"):
            n += 1
            lines.setdefault(cur, set()).add(n)
        elif cur and not l.startswith("-"):
            n += 1
    BASE, ONLY_LINES = base, lines
    return name


def main():
    global ONLY_CHECKS
    a = sys.argv[1:]
    if "--report" in a:
        return report()
    if "--clean" in a:
        shutil.rmtree(ROOT, ignore_errors=True)
        return
    jobs = int(a[a.index("--jobs") + 1]) if "--jobs" in a else 8
    files = a[a.index("--files") + 1].split(",") if "--files" in a else SRC
    ops = a[a.index("--ops") + 1].split(",") if "--ops" in a else None
    limit = int(a[a.index("--limit") + 1]) if "--limit" in a else None
    ONLY_CHECKS = "--only-checks" in a
    vname = None
    if "--variant" in a:
        vname = prepare_variant(a[a.index("--variant") + 1])
    muts = generate(files, ops)
    if vname:
        for m in muts:
            m["id"] = vname + "|" + m["id"]
            m["variant"] = vname
    if "--ids" in a:
        want = set(a[a.index("--ids") + 1].split(","))
        muts = [m for m in muts if m["id"] in want]
    if limit:
        muts = muts[:limit]
    print("%d mutants" % len(muts), flush=True)
    if "--list" in a:
        for m in muts:
            print(m["id"], "|", m["new"].strip())
        return
    os.makedirs(ROOT, exist_ok=True)
    outp = os.path.join(V, "selftest", "mutation_variants.jsonl" if vname else "mutation_results.jsonl")
    done = {}
    if os.path.exists(outp) and "--fresh" not in a:
        for l in open(outp):
            r = json.loads(l)
            done[r["id"]] = r
    if "--recheck" in a:
        # re-run only the checks for mutants already classified
        ONLY_CHECKS = True
        todo = [dict(m, tests=done[m["id"]].get("tests")) for m in muts if m["id"] in done and done[m["id"]].get("compile")]
    else:
        todo = [m for m in muts if m["id"] not in done]
    print("%d to run" % len(todo), flush=True)
    with multiprocessing.Pool(jobs) as pool:
        n = 0
        for r in pool.imap_unordered(work, todo):
            done[r["id"]] = r
            n += 1
            if n % 20 == 0:
                print("  %d/%d" % (n, len(todo)), flush=True)
            with open(outp, "w") as f:
                for k in sorted(done):
                    f.write(json.dumps(done[k]) + "\n")
    report() if not vname else None


if __name__ == "__main__":
    main()
