#!/usr/bin/env python3
"""recompute detected_by / rules of every stored seeded variant against the current checks (no cargo test)"""
import json, os, shutil, subprocess, sys, tempfile
from concurrent.futures import ThreadPoolExecutor
VERIF = os.path.dirname(os.path.dirname(os.path.abspath(__file__)))
ALL = ["C01", "C02", "C03", "C04", "C05", "C06", "C07", "C08", "C09", "C10", "C11", "C12", "C13", "C15", "C16"]


def one(name):
    d = os.path.join(VERIF, "seeded", name)
    scratch = tempfile.mkdtemp(prefix="xsgv-ref-")
    try:
        tree = os.path.join(scratch, "repo")
        shutil.copytree("/repo", tree, ignore=lambda p, n: [x for x in n if x in (".git", "target", "wasm")] if p == "/repo" else [])
        r = subprocess.run(["patch", "-p1", "-s", "--no-backup-if-mismatch", "-i", os.path.join(d, "patch.diff")], cwd=tree, capture_output=True, text=True)
        if r.returncode != 0:
            return name, None
        env = dict(os.environ, XSGV_REPO=tree, XSGV_NO_EVIDENCE="1")
        det = {}
        for p in ALL:
            c = subprocess.run([os.path.join(VERIF, "check"), p], env=env, capture_output=True, text=True)
            rules = sorted({l.strip().split(" ")[0][5:] for l in c.stdout.splitlines() if l.strip().startswith("rule=")})
            if "VIOLATION property=%s" % p in c.stdout:
                det[p] = rules
        return name, det
    finally:
        shutil.rmtree(scratch, ignore_errors=True)


names = sorted(os.listdir(os.path.join(VERIF, "seeded")))
bad = 0
with ThreadPoolExecutor(max_workers=6) as ex:
    for name, det in ex.map(one, names):
        mp = os.path.join(VERIF, "seeded", name, "meta.json")
        m = json.load(open(mp))
        if det is None:
            print(name, "patch no longer applies"); continue
        m["detected_by"] = sorted(det)
        # sensitivity obligations: the target property if it reports the variant, else the checks that do
        m["properties"] = [m["property"]] if m["property"] in det else sorted(det)
        m["rules"] = det
        json.dump(m, open(mp, "w"), indent=1)
        own = m["property"] in det
        na = m["property"] not in ALL       # seeded against a property that is not claimed (C14)
        if not own and not (na and det):
            bad += 1
        print("%-10s target %s %-8s also: %s" % (name, m["property"], "DETECTED" if own else ("n/a" if na else "MISSED"), ",".join(k for k in sorted(det) if k != m["property"])))
print("missed by own property:", bad)
