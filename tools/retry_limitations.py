#!/usr/bin/env python3
"""re-run all checks on selftest/limitations/*; variants that are now silent move to selftest/benign/"""
import json, os, shutil, subprocess, tempfile
V = os.path.dirname(os.path.dirname(os.path.abspath(__file__)))
ALL = ["C01", "C02", "C03", "C04", "C05", "C06", "C07", "C08", "C09", "C10", "C11", "C12", "C13", "C15", "C16"]
base = os.path.join(V, "selftest", "limitations")
for name in sorted(os.listdir(base)):
    d = os.path.join(base, name)
    scratch = tempfile.mkdtemp(prefix="xsgv-lim-")
    try:
        tree = os.path.join(scratch, "repo")
        shutil.copytree("/repo", tree, ignore=lambda p, n: [x for x in n if x in (".git", "target", "wasm")] if p == "/repo" else [])
        if subprocess.run(["patch", "-p1", "-s", "--no-backup-if-mismatch", "-i", os.path.join(d, "patch.diff")], cwd=tree).returncode != 0:
            print(name, "patch fails"); continue
        env = dict(os.environ, XSGV_REPO=tree, XSGV_NO_EVIDENCE="1")
        alarms = {}
        for p in ALL:
            c = subprocess.run([os.path.join(V, "check"), p], env=env, capture_output=True, text=True)
            if c.returncode != 0:
                alarms[p] = sorted({l.strip()[5:].split(" ")[0] for l in c.stdout.splitlines() if l.strip().startswith("rule=")}) or ["rc=%d" % c.returncode]
        m = json.load(open(os.path.join(d, "meta.json")))
        m["alarms"] = alarms
        json.dump(m, open(os.path.join(d, "meta.json"), "w"), indent=1)
        if not alarms:
            shutil.move(d, os.path.join(V, "selftest", "benign", name))
            print("%-12s now SILENT -> benign" % name)
        else:
            print("%-12s still reported: %s" % (name, alarms))
    finally:
        shutil.rmtree(scratch, ignore_errors=True)
