//! xsgv-driver: rustc_private fact extractor.
//!
//! Used as RUSTC_WORKSPACE_WRAPPER (or RUSTC_WRAPPER with XSGV_CRATES) under
//! `cargo +nightly check`. For every selected crate it type-checks the crate
//! with the real build's flags and dumps ADTs, statics and the MIR of every
//! body (resolved callees, typed places, constants, spans) as one JSON file in
//! $XSGV_OUT. No code of the analysed crate is executed.
#![feature(rustc_private)]

extern crate rustc_abi;
extern crate rustc_driver;
extern crate rustc_hir;
extern crate rustc_interface;
extern crate rustc_middle;
extern crate rustc_session;
extern crate rustc_span;

mod json;
use json::J;

use rustc_driver::{Callbacks, Compilation};
use rustc_hir::def::DefKind;
use rustc_hir::def_id::{DefId, LocalDefId};
use rustc_interface::interface::Compiler;
use rustc_middle::mir::{
    self, AggregateKind, BasicBlockData, Body, Const, ConstValue, Operand, Place, PlaceTy,
    ProjectionElem, Rvalue, StatementKind, TerminatorKind,
};
use rustc_middle::ty::print::with_no_trimmed_paths;
use rustc_middle::ty::{self, Instance, Ty, TyCtxt, TypingEnv};
use rustc_span::Span;

struct Cb {
    out_dir: String,
}

fn span_j(tcx: TyCtxt<'_>, sp: Span) -> J {
    let sm = tcx.sess.source_map();
    let call = sp.source_callsite();
    let mut v = vec![
        ("s", J::s(sm.span_to_diagnostic_string(call))),
        ("exp", J::Bool(sp.from_expansion())),
    ];
    if let Some(d) = sp.desugaring_kind() {
        v.push(("desugar", J::s(format!("{:?}", d))));
    }
    if sp.from_expansion() {
        let names: Vec<J> = sp
            .macro_backtrace()
            .map(|e| J::s(format!("{}", e.kind.descr())))
            .collect();
        v.push(("macros", J::Arr(names)));
    }
    J::Obj(v)
}

fn ty_s(ty: Ty<'_>) -> String {
    with_no_trimmed_paths!(ty.to_string())
}

fn path_s(tcx: TyCtxt<'_>, did: DefId) -> String {
    with_no_trimmed_paths!(tcx.def_path_str(did))
}

fn peel<'tcx>(mut ty: Ty<'tcx>) -> (Ty<'tcx>, i128) {
    let mut n = 0;
    loop {
        match ty.kind() {
            ty::Ref(_, t, _) => {
                ty = *t;
                n += 1;
            }
            ty::RawPtr(t, _) => {
                ty = *t;
                n += 1;
            }
            _ => return (ty, n),
        }
    }
}

fn ty_j<'tcx>(tcx: TyCtxt<'tcx>, ty: Ty<'tcx>) -> J {
    let (inner, refs) = peel(ty);
    let mut v = vec![("s", J::s(ty_s(ty))), ("refs", J::Num(refs))];
    match inner.kind() {
        ty::Adt(def, args) => {
            v.push(("adt", J::s(path_s(tcx, def.did()))));
            v.push((
                "args",
                J::Arr(args.iter().map(|a| J::s(with_no_trimmed_paths!(a.to_string()))).collect()),
            ));
            let targs: Vec<J> = args.types().map(|t| ty_j_shallow(tcx, t)).collect();
            v.push(("targs", J::Arr(targs)));
        }
        ty::Closure(did, _) => v.push(("closure", J::s(path_s(tcx, *did)))),
        ty::FnDef(did, args) => {
            v.push(("fndef", J::s(path_s(tcx, *did))));
            v.push((
                "args",
                J::Arr(args.iter().map(|a| J::s(with_no_trimmed_paths!(a.to_string()))).collect()),
            ));
        }
        ty::Param(p) => v.push(("param", J::s(p.name.to_string()))),
        ty::Tuple(ts) => v.push(("tuple", J::Arr(ts.iter().map(|t| ty_j_shallow(tcx, t)).collect()))),
        ty::Slice(t) => v.push(("slice", ty_j_shallow(tcx, *t))),
        ty::Array(t, _) => v.push(("array", ty_j_shallow(tcx, *t))),
        ty::Str => v.push(("prim", J::s("str"))),
        ty::Bool | ty::Char | ty::Int(_) | ty::Uint(_) | ty::Float(_) => {
            v.push(("prim", J::s(ty_s(inner))))
        }
        ty::Dynamic(..) => v.push(("dyn", J::Bool(true))),
        _ => {}
    }
    J::Obj(v)
}

fn ty_j_shallow<'tcx>(tcx: TyCtxt<'tcx>, ty: Ty<'tcx>) -> J {
    let (inner, refs) = peel(ty);
    let mut v = vec![("s", J::s(ty_s(ty))), ("refs", J::Num(refs))];
    match inner.kind() {
        ty::Adt(def, args) => {
            v.push(("adt", J::s(path_s(tcx, def.did()))));
            let targs: Vec<J> = args
                .types()
                .map(|t| {
                    let (i2, _) = peel(t);
                    match i2.kind() {
                        ty::Adt(d2, _) => J::Obj(vec![
                            ("s", J::s(ty_s(t))),
                            ("adt", J::s(path_s(tcx, d2.did()))),
                        ]),
                        _ => J::Obj(vec![("s", J::s(ty_s(t)))]),
                    }
                })
                .collect();
            v.push(("targs", J::Arr(targs)));
        }
        ty::Closure(did, _) => v.push(("closure", J::s(path_s(tcx, *did)))),
        ty::FnDef(did, _) => v.push(("fndef", J::s(path_s(tcx, *did)))),
        ty::Param(p) => v.push(("param", J::s(p.name.to_string()))),
        ty::Str => v.push(("prim", J::s("str"))),
        ty::Bool | ty::Char | ty::Int(_) | ty::Uint(_) | ty::Float(_) => {
            v.push(("prim", J::s(ty_s(inner))))
        }
        _ => {}
    }
    J::Obj(v)
}

struct Cx<'a, 'tcx> {
    tcx: TyCtxt<'tcx>,
    body: &'a Body<'tcx>,
    owner: DefId,
}

impl<'a, 'tcx> Cx<'a, 'tcx> {
    fn place(&self, p: &Place<'tcx>) -> J {
        let tcx = self.tcx;
        let mut pty = PlaceTy::from_ty(self.body.local_decls[p.local].ty);
        let mut projs = Vec::new();
        for elem in p.projection.iter() {
            let j = match elem {
                ProjectionElem::Deref => J::s("deref"),
                ProjectionElem::Field(idx, fty) => {
                    let mut v = vec![("i", J::Num(idx.as_usize() as i128))];
                    let (base, _) = (pty.ty, 0);
                    match base.kind() {
                        ty::Adt(def, _) => {
                            let vidx = pty.variant_index.unwrap_or(rustc_abi::FIRST_VARIANT);
                            let var = def.variant(vidx);
                            v.push(("adt", J::s(path_s(tcx, def.did()))));
                            v.push(("variant", J::s(var.name.to_string())));
                            if let Some(f) = var.fields.get(idx) {
                                v.push(("f", J::s(f.name.to_string())));
                            }
                        }
                        ty::Tuple(_) => v.push(("tuple", J::Bool(true))),
                        ty::Closure(did, _) => v.push(("closure", J::s(path_s(tcx, *did)))),
                        _ => {}
                    }
                    v.push(("ty", J::s(ty_s(fty))));
                    J::Obj(v)
                }
                ProjectionElem::Downcast(name, vidx) => J::Obj(vec![
                    (
                        "dc",
                        match name {
                            Some(n) => J::s(n.to_string()),
                            None => J::Num(vidx.as_usize() as i128),
                        },
                    ),
                ]),
                ProjectionElem::Index(l) => J::Obj(vec![("idx", J::Num(l.as_usize() as i128))]),
                ProjectionElem::ConstantIndex { offset, from_end, .. } => J::Obj(vec![
                    ("cidx", J::Num(offset as i128)),
                    ("from_end", J::Bool(from_end)),
                ]),
                ProjectionElem::Subslice { from, to, from_end } => J::Obj(vec![
                    ("subslice", J::Arr(vec![J::Num(from as i128), J::Num(to as i128)])),
                    ("from_end", J::Bool(from_end)),
                ]),
                other => J::Obj(vec![("other", J::s(format!("{:?}", other)))]),
            };
            projs.push(j);
            pty = pty.projection_ty(tcx, elem);
        }
        J::Obj(vec![
            ("l", J::Num(p.local.as_usize() as i128)),
            ("p", J::Arr(projs)),
            ("ty", ty_j_shallow(tcx, pty.ty)),
        ])
    }

    fn bytes_of_alloc(&self, alloc_id: mir::interpret::AllocId, off: u64, len: u64) -> Option<Vec<u8>> {
        let ga = self.tcx.try_get_global_alloc(alloc_id)?;
        let mem = match ga {
            mir::interpret::GlobalAlloc::Memory(m) => m,
            _ => return None,
        };
        let a = mem.inner();
        let end = off.checked_add(len)?;
        if end > a.size().bytes() {
            return None;
        }
        Some(
            a.inspect_with_uninit_and_ptr_outside_interpreter(off as usize..end as usize)
                .to_vec(),
        )
    }

    fn constant(&self, c: &mir::ConstOperand<'tcx>) -> J {
        let tcx = self.tcx;
        let ty = c.const_.ty();
        let mut v = vec![
            ("ty", ty_j(tcx, ty)),
            ("dbg", J::s(with_no_trimmed_paths!(format!("{}", c.const_)))),
        ];
        if let Const::Unevaluated(uv, _) = c.const_ {
            if let Some(p) = uv.promoted {
                v.push(("promoted", J::Num(p.as_usize() as i128)));
            } else {
                v.push(("unevaluated", J::s(path_s(tcx, uv.def))));
            }
        }
        // evaluate where cheap and safe
        let val: Option<ConstValue> = match c.const_ {
            Const::Val(val, _) => Some(val),
            Const::Unevaluated(uv, _) if uv.promoted.is_none() => {
                let env = TypingEnv::post_analysis(tcx, self.owner);
                c.const_.eval(tcx, env, c.span).ok()
            }
            _ => None,
        };
        if let Some(val) = val {
            let (inner, refs) = peel(ty);
            match (val, inner.kind()) {
                (ConstValue::Scalar(mir::interpret::Scalar::Int(i)), _) if refs == 0 => {
                    match ty.kind() {
                        ty::Bool => v.push(("bool", J::Bool(i.to_bits_unchecked() != 0))),
                        ty::Char => {
                            let c = char::from_u32(i.to_bits_unchecked() as u32).unwrap_or('\u{fffd}');
                            v.push(("char", J::s(c.to_string())));
                        }
                        ty::Int(_) => {
                            let size = i.size();
                            v.push(("int", J::Num(i.to_int(size))));
                        }
                        ty::Uint(_) => {
                            v.push(("int", J::Num(i.to_bits_unchecked() as i128)));
                        }
                        _ => {}
                    }
                }
                (ConstValue::Slice { alloc_id, meta }, ty::Str) if refs == 1 => {
                    if let Some(b) = self.bytes_of_alloc(alloc_id, 0, meta) {
                        v.push(("str", J::s(String::from_utf8_lossy(&b).to_string())));
                    }
                }
                (ConstValue::Slice { alloc_id, meta }, ty::Slice(_)) if refs == 1 => {
                    if let Some(b) = self.bytes_of_alloc(alloc_id, 0, meta) {
                        v.push(("bytes", J::Arr(b.iter().map(|x| J::Num(*x as i128)).collect())));
                    }
                }
                (ConstValue::Scalar(mir::interpret::Scalar::Ptr(ptr, _)), ty::Array(et, n)) if refs == 1 => {
                    if matches!(et.kind(), ty::Uint(ty::UintTy::U8)) {
                        if let Some(n) = n.try_to_target_usize(tcx) {
                            let (prov, off) = ptr.into_raw_parts();
                            if let Some(b) = self.bytes_of_alloc(prov.alloc_id(), off.bytes(), n) {
                                v.push(("bytes", J::Arr(b.iter().map(|x| J::Num(*x as i128)).collect())));
                            }
                        }
                    }
                }
                _ => {}
            }
        }
        J::Obj(vec![("const", J::Obj(v))])
    }

    fn operand(&self, o: &Operand<'tcx>) -> J {
        match o {
            Operand::Copy(p) => J::Obj(vec![("copy", self.place(p))]),
            Operand::Move(p) => J::Obj(vec![("move", self.place(p))]),
            Operand::Constant(c) => self.constant(c),
            #[allow(unreachable_patterns)]
            other => J::Obj(vec![("other", J::s(format!("{:?}", other)))]),
        }
    }

    fn rvalue(&self, rv: &Rvalue<'tcx>) -> J {
        let tcx = self.tcx;
        match rv {
            Rvalue::Use(op, ..) => J::Obj(vec![("k", J::s("use")), ("op", self.operand(op))]),
            Rvalue::Ref(_, bk, p) => J::Obj(vec![
                ("k", J::s("ref")),
                ("mut", J::Bool(matches!(bk, mir::BorrowKind::Mut { .. }))),
                ("place", self.place(p)),
            ]),
            Rvalue::RawPtr(kind, p) => J::Obj(vec![
                ("k", J::s("rawptr")),
                ("kind", J::s(format!("{:?}", kind))),
                ("place", self.place(p)),
            ]),
            Rvalue::CopyForDeref(p) => J::Obj(vec![
                ("k", J::s("use")),
                ("op", J::Obj(vec![("copy", self.place(p))])),
            ]),
            Rvalue::Cast(kind, op, ty) => J::Obj(vec![
                ("k", J::s("cast")),
                ("kind", J::s(format!("{:?}", kind))),
                ("op", self.operand(op)),
                ("ty", ty_j_shallow(tcx, *ty)),
            ]),
            Rvalue::BinaryOp(op, ops) => J::Obj(vec![
                ("k", J::s("binop")),
                ("op", J::s(format!("{:?}", op))),
                ("l", self.operand(&ops.0)),
                ("r", self.operand(&ops.1)),
            ]),
            Rvalue::UnaryOp(op, o) => J::Obj(vec![
                ("k", J::s("unop")),
                ("op", J::s(format!("{:?}", op))),
                ("o", self.operand(o)),
            ]),
            Rvalue::Discriminant(p) => {
                let pty = p.ty(&self.body.local_decls, tcx).ty;
                let mut v = vec![("k", J::s("discr")), ("place", self.place(p))];
                if let ty::Adt(def, _) = pty.kind() {
                    if def.is_enum() {
                        v.push(("enum", J::s(path_s(tcx, def.did()))));
                        let vars: Vec<(String, J)> = def
                            .discriminants(tcx)
                            .map(|(vi, d)| (d.val.to_string(), J::s(def.variant(vi).name.to_string())))
                            .collect();
                        v.push(("variants", J::Map(vars)));
                    }
                }
                J::Obj(v)
            }
            Rvalue::Aggregate(kind, ops) => {
                let mut v = vec![("k", J::s("agg"))];
                match &**kind {
                    AggregateKind::Adt(did, vidx, _, _, _) => {
                        let def = tcx.adt_def(*did);
                        let var = def.variant(*vidx);
                        v.push(("kind", J::s("adt")));
                        v.push(("adt", J::s(path_s(tcx, *did))));
                        v.push(("variant", J::s(var.name.to_string())));
                        v.push((
                            "fields",
                            J::Arr(var.fields.iter().map(|f| J::s(f.name.to_string())).collect()),
                        ));
                    }
                    AggregateKind::Tuple => v.push(("kind", J::s("tuple"))),
                    AggregateKind::Array(_) => v.push(("kind", J::s("array"))),
                    AggregateKind::Closure(did, _) => {
                        v.push(("kind", J::s("closure")));
                        v.push(("closure", J::s(path_s(tcx, *did))));
                    }
                    other => {
                        v.push(("kind", J::s("other")));
                        v.push(("d", J::s(format!("{:?}", other))));
                    }
                }
                v.push(("ops", J::Arr(ops.iter().map(|o| self.operand(o)).collect())));
                J::Obj(v)
            }
            Rvalue::ThreadLocalRef(did) => J::Obj(vec![
                ("k", J::s("threadlocal")),
                ("def", J::s(path_s(tcx, *did))),
            ]),
            other => J::Obj(vec![("k", J::s("other")), ("d", J::s(format!("{:?}", other)))]),
        }
    }

    fn block(&self, bb: &BasicBlockData<'tcx>) -> J {
        let tcx = self.tcx;
        let mut stmts = Vec::new();
        for st in bb.statements.iter() {
            match &st.kind {
                StatementKind::Assign(b) => {
                    let (p, rv) = &**b;
                    stmts.push(J::Obj(vec![
                        ("k", J::s("assign")),
                        ("place", self.place(p)),
                        ("rv", self.rvalue(rv)),
                        ("span", span_j(tcx, st.source_info.span)),
                    ]));
                }
                StatementKind::SetDiscriminant { place, variant_index } => {
                    stmts.push(J::Obj(vec![
                        ("k", J::s("setdiscr")),
                        ("place", self.place(place)),
                        ("variant", J::Num(variant_index.as_usize() as i128)),
                        ("span", span_j(tcx, st.source_info.span)),
                    ]));
                }
                StatementKind::Intrinsic(i) => {
                    stmts.push(J::Obj(vec![
                        ("k", J::s("intrinsic")),
                        ("d", J::s(format!("{:?}", i))),
                    ]));
                }
                _ => {}
            }
        }
        let term = bb.terminator();
        let tj = match &term.kind {
            TerminatorKind::Goto { target } => {
                J::Obj(vec![("k", J::s("goto")), ("t", J::Num(target.as_usize() as i128))])
            }
            TerminatorKind::SwitchInt { discr, targets } => {
                let ts: Vec<J> = targets
                    .iter()
                    .map(|(v, t)| J::Arr(vec![J::s(v.to_string()), J::Num(t.as_usize() as i128)]))
                    .collect();
                J::Obj(vec![
                    ("k", J::s("switch")),
                    ("op", self.operand(discr)),
                    ("targets", J::Arr(ts)),
                    ("otherwise", J::Num(targets.otherwise().as_usize() as i128)),
                    ("span", span_j(tcx, term.source_info.span)),
                ])
            }
            TerminatorKind::Return => J::Obj(vec![("k", J::s("return"))]),
            TerminatorKind::Unreachable => J::Obj(vec![("k", J::s("unreachable"))]),
            TerminatorKind::UnwindResume => J::Obj(vec![("k", J::s("resume"))]),
            TerminatorKind::UnwindTerminate(_) => J::Obj(vec![("k", J::s("terminate"))]),
            TerminatorKind::Drop { place, target, .. } => J::Obj(vec![
                ("k", J::s("drop")),
                ("place", self.place(place)),
                ("t", J::Num(target.as_usize() as i128)),
            ]),
            TerminatorKind::Assert { cond, expected, msg, target, .. } => J::Obj(vec![
                ("k", J::s("assert")),
                ("cond", self.operand(cond)),
                ("expected", J::Bool(*expected)),
                ("msg", J::s(assert_kind(msg))),
                ("t", J::Num(target.as_usize() as i128)),
                ("span", span_j(tcx, term.source_info.span)),
            ]),
            TerminatorKind::Call { func, args, destination, target, fn_span, .. } => {
                let mut v = vec![("k", J::s("call"))];
                v.push(("callee", self.callee(func)));
                v.push(("args", J::Arr(args.iter().map(|a| self.operand(&a.node)).collect())));
                v.push(("dest", self.place(destination)));
                v.push((
                    "t",
                    match target {
                        Some(t) => J::Num(t.as_usize() as i128),
                        None => J::Null,
                    },
                ));
                v.push(("span", span_j(tcx, term.source_info.span)));
                v.push(("fn_span", span_j(tcx, *fn_span)));
                J::Obj(v)
            }
            TerminatorKind::TailCall { func, args, .. } => {
                let mut v = vec![("k", J::s("tailcall"))];
                v.push(("callee", self.callee(func)));
                v.push(("args", J::Arr(args.iter().map(|a| self.operand(&a.node)).collect())));
                J::Obj(v)
            }
            other => J::Obj(vec![("k", J::s("other")), ("d", J::s(format!("{:?}", other)))]),
        };
        J::Obj(vec![
            ("cleanup", J::Bool(bb.is_cleanup)),
            ("stmts", J::Arr(stmts)),
            ("term", tj),
        ])
    }

    fn callee(&self, func: &Operand<'tcx>) -> J {
        let tcx = self.tcx;
        let fty = func.ty(&self.body.local_decls, tcx);
        match fty.kind() {
            ty::FnDef(did, args) => {
                let mut v = vec![
                    ("path", J::s(path_s(tcx, *did))),
                    ("krate", J::s(tcx.crate_name(did.krate).to_string())),
                    ("local", J::Bool(did.is_local())),
                    (
                        "args",
                        J::Arr(args.iter().map(|a| J::s(with_no_trimmed_paths!(a.to_string()))).collect()),
                    ),
                    ("targs", J::Arr(args.types().map(|t| ty_j_shallow(tcx, t)).collect())),
                    (
                        "full",
                        J::s(with_no_trimmed_paths!(tcx.def_path_str_with_args(*did, args))),
                    ),
                ];
                if let Some(tr) = tcx.trait_of_assoc(*did) {
                    v.push(("trait", J::s(path_s(tcx, tr))));
                }
                if matches!(tcx.def_kind(*did), DefKind::Fn | DefKind::AssocFn) {
                    let tc = tcx
                        .codegen_fn_attrs(*did)
                        .flags
                        .contains(rustc_middle::middle::codegen_fn_attrs::CodegenFnAttrFlags::TRACK_CALLER);
                    v.push(("decl_track_caller", J::Bool(tc)));
                }
                if let Some(imp) = tcx.impl_of_assoc(*did) {
                    let self_ty = tcx.type_of(imp).instantiate_identity().skip_norm_wip();
                    v.push(("impl_self", ty_j_shallow(tcx, self_ty)));
                }
                let env = TypingEnv::post_analysis(tcx, self.owner);
                if let Ok(Some(inst)) = Instance::try_resolve(tcx, env, *did, args) {
                    let rd = inst.def_id();
                    v.push(("resolved", J::s(path_s(tcx, rd))));
                    v.push((
                        "resolved_full",
                        J::s(with_no_trimmed_paths!(tcx.def_path_str_with_args(rd, inst.args))),
                    ));
                    v.push(("resolved_local", J::Bool(rd.is_local())));
                    v.push(("resolved_krate", J::s(tcx.crate_name(rd.krate).to_string())));
                    v.push(("resolved_kind", J::s(format!("{:?}", inst.def).split('(').next().unwrap_or("").to_string())));
                    v.push(("track_caller", J::Bool(inst.def.requires_caller_location(tcx))));
                }
                J::Obj(v)
            }
            _ => J::Obj(vec![("indirect", self.operand(func)), ("ty", J::s(ty_s(fty)))]),
        }
    }
}

fn assert_kind(msg: &mir::AssertKind<Operand<'_>>) -> String {
    use mir::AssertKind::*;
    match msg {
        BoundsCheck { .. } => "BoundsCheck".into(),
        Overflow(op, ..) => format!("Overflow({:?})", op),
        OverflowNeg(_) => "OverflowNeg".into(),
        DivisionByZero(_) => "DivisionByZero".into(),
        RemainderByZero(_) => "RemainderByZero".into(),
        MisalignedPointerDereference { .. } => "MisalignedPointerDereference".into(),
        NullPointerDereference => "NullPointerDereference".into(),
        other => format!("{:?}", other).split(|c| c == '(' || c == '{' || c == ' ').next().unwrap_or("").to_string(),
    }
}

fn body_j<'tcx>(tcx: TyCtxt<'tcx>, owner: DefId, body: &Body<'tcx>, name: String, kind: &str) -> J {
    let cx = Cx { tcx, body, owner };
    let mut names: Vec<Option<String>> = vec![None; body.local_decls.len()];
    let mut dbg = Vec::new();
    for vdi in body.var_debug_info.iter() {
        if let mir::VarDebugInfoContents::Place(p) = &vdi.value {
            if p.projection.is_empty() {
                names[p.local.as_usize()] = Some(vdi.name.to_string());
            }
            dbg.push(J::Obj(vec![("name", J::s(vdi.name.to_string())), ("place", cx.place(p))]));
        }
    }
    let locals: Vec<J> = body
        .local_decls
        .iter_enumerated()
        .map(|(l, d)| {
            J::Obj(vec![
                ("ty", ty_j(tcx, d.ty)),
                ("name", J::opt_s(names[l.as_usize()].clone())),
                ("mut", J::Bool(d.mutability.is_mut())),
            ])
        })
        .collect();
    let blocks: Vec<J> = body.basic_blocks.iter().map(|bb| cx.block(bb)).collect();
    J::Obj(vec![
        ("name", J::s(name)),
        ("kind", J::s(kind)),
        ("arg_count", J::Num(body.arg_count as i128)),
        ("span", span_j(tcx, body.span)),
        ("locals", J::Arr(locals)),
        ("debug", J::Arr(dbg)),
        ("blocks", J::Arr(blocks)),
    ])
}

fn dump<'tcx>(tcx: TyCtxt<'tcx>) -> J {
    let crate_name = tcx.crate_name(rustc_hir::def_id::LOCAL_CRATE).to_string();
    let crate_types: Vec<J> = tcx.crate_types().iter().map(|t| J::s(format!("{:?}", t))).collect();

    let mut adts = Vec::new();
    let mut statics = Vec::new();
    let mut fns = Vec::new();
    let mut impls = Vec::new();
    for ldid in tcx.hir_crate_items(()).definitions() {
        let did = ldid.to_def_id();
        match tcx.def_kind(did) {
            DefKind::Struct | DefKind::Enum | DefKind::Union => {
                let def = tcx.adt_def(did);
                let mut vars = Vec::new();
                for (vi, var) in def.variants().iter_enumerated() {
                    let fields: Vec<J> = var
                        .fields
                        .iter()
                        .map(|f| {
                            let fty = tcx.type_of(f.did).instantiate_identity().skip_norm_wip();
                            J::Obj(vec![
                                ("name", J::s(f.name.to_string())),
                                ("ty", ty_j(tcx, fty)),
                                ("pub", J::Bool(f.vis.is_public())),
                            ])
                        })
                        .collect();
                    vars.push(J::Obj(vec![
                        ("name", J::s(var.name.to_string())),
                        ("idx", J::Num(vi.as_usize() as i128)),
                        ("fields", J::Arr(fields)),
                    ]));
                }
                adts.push(J::Obj(vec![
                    ("path", J::s(path_s(tcx, did))),
                    ("kind", J::s(format!("{:?}", tcx.def_kind(did)))),
                    ("pub", J::Bool(tcx.visibility(did).is_public())),
                    ("variants", J::Arr(vars)),
                    ("span", span_j(tcx, tcx.def_span(did))),
                ]));
            }
            DefKind::Static { .. } => {
                let sty = tcx.type_of(did).instantiate_identity().skip_norm_wip();
                statics.push(J::Obj(vec![
                    ("path", J::s(path_s(tcx, did))),
                    ("ty", ty_j(tcx, sty)),
                    ("thread_local", J::Bool(tcx.is_thread_local_static(did))),
                    ("mut", J::Bool(tcx.is_mutable_static(did))),
                    ("span", span_j(tcx, tcx.def_span(did))),
                ]));
            }
            DefKind::Fn | DefKind::AssocFn => {
                let sig = tcx.fn_sig(did).instantiate_identity().skip_norm_wip().skip_binder();
                let mut v = vec![
                    ("path", J::s(path_s(tcx, did))),
                    ("pub", J::Bool(tcx.visibility(did).is_public())),
                    ("inputs", J::Arr(sig.inputs().iter().map(|t| ty_j(tcx, *t)).collect())),
                    ("output", ty_j(tcx, sig.output())),
                    ("has_body", J::Bool(tcx.is_mir_available(did))),
                    ("span", span_j(tcx, tcx.def_span(did))),
                    ("unsafe", J::Bool(sig.safety().is_unsafe())),
                ];
                if let Some(imp) = tcx.impl_of_assoc(did) {
                    let self_ty = tcx.type_of(imp).instantiate_identity().skip_norm_wip();
                    v.push(("impl_self", ty_j_shallow(tcx, self_ty)));
                    if let Some(tr) = tcx.impl_opt_trait_ref(imp) {
                        let tr = tr.instantiate_identity().skip_norm_wip();
                        v.push(("impl_trait", J::s(path_s(tcx, tr.def_id))));
                        v.push(("impl_trait_full", J::s(with_no_trimmed_paths!(tr.to_string()))));
                    }
                }
                fns.push(J::Obj(v));
            }
            DefKind::Impl { .. } => {
                let self_ty = tcx.type_of(did).instantiate_identity().skip_norm_wip();
                let mut v = vec![
                    ("self", ty_j_shallow(tcx, self_ty)),
                    ("span", span_j(tcx, tcx.def_span(did))),
                ];
                if let Some(tr) = tcx.impl_opt_trait_ref(did) {
                    let tr = tr.instantiate_identity().skip_norm_wip();
                    v.push(("trait", J::s(path_s(tcx, tr.def_id))));
                }
                impls.push(J::Obj(v));
            }
            _ => {}
        }
    }

    let mut bodies = Vec::new();
    let owners: Vec<LocalDefId> = tcx.hir_body_owners().collect();
    for ldid in owners {
        let did = ldid.to_def_id();
        let kind = tcx.def_kind(did);
        let kstr = match kind {
            DefKind::Fn => "fn",
            DefKind::AssocFn => "assoc_fn",
            DefKind::Closure => "closure",
            _ => continue, // consts, statics, anon consts: no runtime behaviour of their own
        };
        if !tcx.is_mir_available(did) {
            continue;
        }
        let body = tcx.optimized_mir(did);
        bodies.push(body_j(tcx, did, body, path_s(tcx, did), kstr));
        let promoted = tcx.promoted_mir(did);
        for (pi, pb) in promoted.iter_enumerated() {
            bodies.push(body_j(
                tcx,
                did,
                pb,
                format!("{}::promoted[{}]", path_s(tcx, did), pi.as_usize()),
                "promoted",
            ));
        }
    }

    J::Obj(vec![
        ("crate", J::s(crate_name)),
        ("crate_types", J::Arr(crate_types)),
        ("rustc", J::s(option_env!("CFG_VERSION").unwrap_or("nightly").to_string())),
        ("adts", J::Arr(adts)),
        ("statics", J::Arr(statics)),
        ("fns", J::Arr(fns)),
        ("impls", J::Arr(impls)),
        ("bodies", J::Arr(bodies)),
    ])
}

impl Callbacks for Cb {
    fn after_analysis<'tcx>(&mut self, _c: &Compiler, tcx: TyCtxt<'tcx>) -> Compilation {
        let crate_name = tcx.crate_name(rustc_hir::def_id::LOCAL_CRATE).to_string();
        let is_bin = tcx
            .crate_types()
            .iter()
            .any(|t| matches!(t, rustc_session::config::CrateType::Executable));
        let j = dump(tcx);
        let mut s = String::new();
        j.write(&mut s);
        let tag = std::env::var("XSGV_TAG").unwrap_or_else(|_| "default".into());
        let path = format!(
            "{}/{}.{}.{}.json",
            self.out_dir,
            crate_name,
            if is_bin { "bin" } else { "lib" },
            tag
        );
        // one write per process
        std::fs::write(&path, s).expect("xsgv-driver: cannot write fact file");
        Compilation::Continue
    }
}

fn main() {
    let mut args: Vec<String> = std::env::args().collect();
    // as a cargo wrapper argv[1] is the path of the real rustc
    if args.len() > 1 && (args[1].ends_with("rustc") || args[1].contains("/rustc")) {
        args.remove(1);
    }
    let out_dir = std::env::var("XSGV_OUT").unwrap_or_default();
    let crate_name = args
        .iter()
        .position(|a| a == "--crate-name")
        .and_then(|i| args.get(i + 1))
        .cloned()
        .unwrap_or_default();
    let wanted = std::env::var("XSGV_CRATES").unwrap_or_else(|_| "*".into());
    let selected = !out_dir.is_empty()
        && !crate_name.is_empty()
        && crate_name != "build_script_build"
        && (wanted == "*" || wanted.split(',').any(|w| w == crate_name))
        && !args.iter().any(|a| a == "--print" || a.starts_with("--print=") || a == "-vV");
    if selected {
        let mut cb = Cb { out_dir };
        rustc_driver::run_compiler(&args, &mut cb);
    } else {
        struct Nop;
        impl Callbacks for Nop {}
        rustc_driver::run_compiler(&args, &mut Nop);
    }
}
