#!/usr/bin/env python3
"""both-ways self-test of the checker.
  run.py [--tests] [names...]   apply each variant to a scratch copy of /repo's current tree and run the
                                checks of its properties there (XSGV_REPO=<scratch>).
mutants/* must be reported (VIOLATION with the expected rule prefix); benign/* must stay silent for ALL properties.
--tests additionally runs `cargo test` in the scratch copy (variants must compile and pass the suite)."""
import json, os, shutil, subprocess, sys, tempfile
from concurrent.futures import ThreadPoolExecutor

HERE = os.path.dirname(os.path.abspath(__file__))
VERIF = os.path.dirname(HERE)
REPO = os.environ.get("XSGV_REPO", "/repo")
ALL = ["C01", "C02", "C03", "C04", "C05", "C06", "C07", "C08", "C09", "C10", "C11", "C12", "C13", "C15", "C16"]


def one(kind, name, run_tests, tier):
    d = os.path.join(HERE, kind, name)
    meta = json.load(open(os.path.join(d, "meta.json")))
    scratch = tempfile.mkdtemp(prefix="xsgv-st-")
    try:
        tree = os.path.join(scratch, "repo")
        shutil.copytree(REPO, tree, ignore=lambda p, n: [x for x in n if x in (".git", "target", "wasm")] if p == REPO else [])
        r = subprocess.run(["patch", "-p1", "-s", "-i", os.path.join(d, "patch.diff")], cwd=tree, capture_output=True, text=True)
        if r.returncode != 0:
            return (kind, name, "SKIP", "patch does not apply to the current tree: " + r.stdout.strip()[:200])
        if run_tests:
            env = dict(os.environ, CARGO_TARGET_DIR=os.path.join(scratch, "target"), CARGO_NET_OFFLINE="true")
            t = subprocess.run(["cargo", "test", "--offline", "--quiet"], cwd=tree, env=env, capture_output=True, text=True)
            if t.returncode != 0:
                fails = [l.strip() for l in (t.stdout + t.stderr).splitlines() if l.startswith("    ") and "::" in l and " " not in l.strip()]
                return (kind, name, "BAD-VARIANT", "variant does not pass the test suite: " + (", ".join(sorted(set(fails)))[:300] or (t.stdout + t.stderr)[-400:]))
        props = meta["properties"] if kind == "mutants" else ALL
        env = dict(os.environ, XSGV_REPO=tree, XSGV_NO_EVIDENCE="1")
        msgs = []
        verdict = "OK"
        for p in props:
            c = subprocess.run([os.path.join(VERIF, "check"), p, "--tier", tier], env=env, capture_output=True, text=True)
            fired = "VIOLATION property=%s" % p in c.stdout
            if c.returncode == 2:
                verdict = "CHECKER-FAILURE"
                msgs.append("%s: %s" % (p, c.stdout.strip()[-600:]))
            elif kind == "mutants":
                rules = [l.strip() for l in c.stdout.splitlines() if l.strip().startswith("rule=")]
                want = meta.get("expect_rule", "-")
                hit = fired and (want in ("-", "") or any(("rule=" + want) in l for l in rules))
                if not hit:
                    verdict = "MISSED"
                    msgs.append("%s: expected rule %s; got rc=%d %s" % (p, want, c.returncode, "; ".join(rules)[:300]))
                else:
                    msgs.append("%s: %s" % (p, "; ".join(l.split(" site=")[0] for l in rules)[:160]))
            else:
                if fired or c.returncode != 0:
                    verdict = "FALSE-ALARM"
                    msgs.append("%s: %s" % (p, "; ".join(l.strip() for l in c.stdout.splitlines() if "rule=" in l)[:400]))
        return (kind, name, verdict, " | ".join(msgs))
    finally:
        shutil.rmtree(scratch, ignore_errors=True)


def main():
    args = [a for a in sys.argv[1:] if not a.startswith("--")]
    run_tests = "--tests" in sys.argv
    tier = "quick"
    jobs = []
    for kind in ("mutants", "benign"):
        base = os.path.join(HERE, kind)
        for name in sorted(os.listdir(base)) if os.path.isdir(base) else []:
            if args and name not in args and not any(name.startswith(a) for a in args):
                continue
            jobs.append((kind, name))
    bad = 0
    with ThreadPoolExecutor(max_workers=int(os.environ.get("XSGV_JOBS", "6"))) as ex:
        for (kind, name, verdict, msg) in ex.map(lambda j: one(j[0], j[1], run_tests, tier), jobs):
            print("%-8s %-40s %-15s %s" % (kind, name, verdict, msg))
            if verdict not in ("OK", "SKIP"):
                bad += 1
    print("%d variant(s), %d problem(s)" % (len(jobs), bad))
    return 1 if bad else 0


if __name__ == "__main__":
    sys.exit(main())
