#!/usr/bin/env python3
"""create a self-test variant:  mk.py <kind:mutants|benign> <name> <props,comma> <expected rule prefix or -> <desc> (<file> <old> <new>)+
The patch is produced by exact string replacement against /repo's current tree."""
import difflib, json, os, sys

kind, name, props, rule, desc = sys.argv[1:6]
edits = sys.argv[6:]
repo = os.environ.get("XSGV_REPO", "/repo")
out = os.path.join(os.path.dirname(os.path.abspath(__file__)), kind, name)
os.makedirs(out, exist_ok=True)
patch = []
byfile = {}
for i in range(0, len(edits), 3):
    f, old, new = edits[i:i + 3]
    byfile.setdefault(f, []).append((old, new))
for f, reps in byfile.items():
    src = open(os.path.join(repo, f)).read()
    dst = src
    for old, new in reps:
        if dst.count(old) != 1:
            sys.exit("%s: %r occurs %d times in %s" % (name, old, dst.count(old), f))
        dst = dst.replace(old, new)
    patch.extend(difflib.unified_diff(src.splitlines(True), dst.splitlines(True), "a/" + f, "b/" + f))
open(os.path.join(out, "patch.diff"), "w").write("".join(patch))
json.dump({"properties": props.split(","), "expect_rule": rule, "desc": desc}, open(os.path.join(out, "meta.json"), "w"), indent=1)
print("wrote", out)
