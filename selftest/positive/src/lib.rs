//! Positive controls: every construct below MUST be reported by the corresponding zero-count
//! scanner of /verif/xsgv (checked in the thorough tier). Never executed.
#![allow(dead_code, unused)]
use std::collections::{HashMap, HashSet};

pub fn hash_order_into_vec(m: &HashMap<String, u32>) -> Vec<String> {
    let mut v = Vec::new();
    for (k, _) in m.iter() {
        v.push(k.clone());
    }
    v
}

pub fn hash_order_collect(m: &HashSet<String>) -> Vec<String> {
    m.iter().cloned().collect()
}

pub fn hash_first(m: &HashSet<String>) -> Option<&String> {
    m.iter().next()
}

pub fn address_as_value(x: &u32) -> usize {
    x as *const u32 as usize
}

pub fn clock() -> std::time::SystemTime {
    std::time::SystemTime::now()
}

pub fn environment() -> Option<String> {
    std::env::var("HOME").ok()
}

pub static mut COUNTER: u32 = 0;

pub struct Shared {
    pub cell: std::cell::RefCell<u32>,
}

pub fn unwrap_it(x: Option<u32>) -> u32 {
    x.unwrap()
}

pub fn index_it(v: &[u32], i: usize) -> u32 {
    v[i]
}

pub fn slice_it(s: &str, i: usize) -> &str {
    &s[..i]
}

pub fn subtract(a: usize, b: usize) -> usize {
    a - b
}

pub fn divide(a: usize, b: usize) -> usize {
    a / b
}

pub fn explicit_panic(a: u32) -> u32 {
    if a > 3 {
        panic!("boom");
    }
    a
}

pub fn spin(mut a: u32) -> u32 {
    loop {
        if a == 7 {
            a = 0;
        }
    }
}

pub fn recurse(n: u64) -> u64 {
    if n == 0 { 0 } else { recurse(n - 1) + 1 }
}

pub fn swallow(r: Result<u32, String>) -> u32 {
    r.unwrap_or(0)
}

pub fn swallow2(r: Result<u32, String>) -> Option<u32> {
    r.ok()
}

pub fn drop_result() {
    let _ = std::fs::remove_file("/nonexistent");
}

pub fn lossy(b: &[u8]) -> String {
    String::from_utf8_lossy(b).into_owned()
}
