//! Demonstrations of the known findings K1-K3 against the real crates (not part of /repo; run in a scratch copy).
use quick_xml::reader::Reader;
use serde::Deserialize;
use xml_schema_generator::{into_struct, Options};

fn render(xml: &str, o: &Options) -> String {
    let mut reader = Reader::from_str(xml);
    into_struct(&mut reader).unwrap().to_serde_struct(o)
}

// K1 (C13): the serde-xml-rs preset binds text to "$text"; serde-xml-rs 0.6.0 only knows "$value".
#[test]
fn k1_text_is_dropped_by_serde_xml_rs() {
    let xml = r#"<a b="c">d</a>"#;
    let out = render(xml, &Options::serde_xml_rs());
    assert!(out.contains("#[serde(rename = \"$text\")]"), "{out}");
    // the struct exactly as generated:
    #[derive(Deserialize, Debug)]
    pub struct A {
        pub b: String,
        #[serde(rename = "$text")]
        pub text: Option<String>,
    }
    let v: A = serde_xml_rs::from_str(xml).unwrap();
    assert_eq!(v.b, "c");
    assert_eq!(v.text, None, "text content is silently dropped");
    #[derive(Deserialize, Debug)]
    pub struct A2 {
        pub b: String,
        #[serde(rename = "$value")]
        pub text: Option<String>,
    }
    let v: A2 = serde_xml_rs::from_str(xml).unwrap();
    assert_eq!(v.text.as_deref(), Some("d"));
}

// K2 (C04): struct names are not guarded against reserved words / prelude names.
#[test]
fn k2_reserved_struct_names() {
    let out = render("<self><x/></self>", &Options::quick_xml_de());
    assert!(out.contains("pub struct Self {"), "{out}");
    let out = render("<r><String><x/></String><s>t</s></r>", &Options::quick_xml_de());
    assert!(out.contains("pub struct String {"), "{out}");
}

// K3 (C04): struct names are not guaranteed unique.
#[test]
fn k3_duplicate_struct_names() {
    let out = render("<r><a-b><x/></a-b><a_b><y/></a_b></r>", &Options::quick_xml_de());
    assert_eq!(out.matches("pub struct RAB {").count(), 2, "{out}");
}
