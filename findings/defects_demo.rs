use quick_xml::reader::Reader;
use xml_schema_generator::{into_struct, merge_necessity, Element, Necessity, Options};

#[test]
fn f1_merge_order() {
    let r = merge_necessity(vec![Necessity::Mandatory(1)], vec![Necessity::Mandatory(2), Necessity::Mandatory(3)]);
    assert_eq!(r, vec![Necessity::Optional(1), Necessity::Optional(2), Necessity::Optional(3)]);
}
#[test]
fn f1_attr_order() {
    let mut reader = Reader::from_str(r#"<r><a/><a x="1" y="2"/></r>"#);
    let root = into_struct(&mut reader).unwrap();
    let s = root.to_serde_struct(&Options::quick_xml_de());
    assert!(s.find("pub x:").unwrap() < s.find("pub y:").unwrap(), "{s}");
}
#[test]
fn f2_determinism() {
    let mut outs = std::collections::BTreeSet::new();
    for _ in 0..50 {
        let mut reader = Reader::from_str("<r><p><Foo/><foo/><FOO/><fOO/></p><p></p></r>");
        let root = into_struct(&mut reader).unwrap();
        outs.insert(root.to_serde_struct(&Options::quick_xml_de()));
    }
    assert_eq!(outs.len(), 1);
}
#[test]
fn f3_unique_child() {
    let mut p = Element::new("p", vec![]);
    p.add_unique_child(Element::new("b", vec![]));
    p.set_child_optional(&"b");
    p.add_unique_child(Element::new("b", vec![]));
    assert_eq!(p.children().len(), 1);
}
