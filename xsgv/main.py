"""./check <Cxx> [--tier quick|thorough] [--replay file]"""
import argparse
import importlib
import json
import os
import sys
import traceback

from . import extract, report

LEVELS = {"C05": "proof"}
CLAIMED = ["C01", "C02", "C03", "C04", "C05", "C06", "C07", "C08", "C09", "C10", "C11", "C12", "C13", "C15", "C16"]


class Ctx:
    def __init__(self, run, tier):
        self.run = run
        self.tier = tier
        self._cfg = {}

    def log(self, msg):
        print("  [xsgv] " + msg)

    def config(self, tag):
        if tag not in self._cfg:
            crates, th, cached = extract.load(tag, log=self.log)
            self._cfg[tag] = crates
            self.run.tree = th
            if tag not in self.run.configs:
                self.run.configs.append(tag)
            for k, c in crates.items():
                self.run.count("bodies[%s/%s]" % (tag, k), len(c.real_bodies()))
        return self._cfg[tag]

    @property
    def lib(self):
        return self.config("default")["lib"]

    @property
    def bin(self):
        return self.config("default")["bin"]

    @property
    def thorough(self):
        return self.tier == "thorough"


def main(argv=None):
    ap = argparse.ArgumentParser()
    ap.add_argument("prop")
    ap.add_argument("--tier", default=os.environ.get("VERIF_TIER", "quick"), choices=["quick", "thorough"])
    ap.add_argument("--replay")
    ap.add_argument("--list", help="print every evaluated rule instance whose rule contains this text (debugging aid)")
    a = ap.parse_args(argv)
    prop = a.prop.upper()
    if prop not in CLAIMED:
        print("%s is not claimed (see MANIFEST.json not_applicable)" % prop)
        return 2
    seed = int(os.environ.get("VERIF_SEED", "0") or 0)
    run = report.Run(prop, a.tier, LEVELS.get(prop, "other"), seed)
    if a.replay:
        with open(a.replay) as f:
            run.replay_keys = {v["key"] for v in json.load(f)["violations"]}
    ctx = Ctx(run, a.tier)
    cmd = "./check %s --tier %s" % (prop, a.tier)
    try:
        mod = importlib.import_module("xsgv.rules.%s" % prop.lower())
        mod.run(ctx)
        if a.tier == "thorough" and not a.replay and not os.environ.get("XSGV_NO_EXTRAS"):
            from . import thorough
            if prop in ("C05", "C07", "C08", "C11", "C06", "C10", "C12"):
                thorough.positive_controls(run, prop)
            thorough.clippy_cross_reference(run, prop)
            if prop == "C07":
                thorough.stack_budget(run, ctx.lib)
            thorough.sensitivity(run, prop)
    except (extract.ExtractError, report.CheckerFailure) as e:
        print("CHECKER-FAILURE property=%s: %s" % (prop, e))
        return 2
    except Exception as e:
        # a rule could not be evaluated on this tree: the code no longer has the shape the rule was
        # confirmed on.  That is reported as a violation of that rule (fail closed), with the cause.
        tb = traceback.extract_tb(e.__traceback__)
        where = "%s:%d %s" % (tb[-1].filename.rsplit("/", 1)[-1], tb[-1].lineno, tb[-1].name) if tb else "?"
        traceback.print_exc()
        run.ob("checker.shape-not-recognised", "rule pack %s" % prop, False,
               "a rule of this pack could not be evaluated on the current tree (%s: %s at %s): the mechanism it was confirmed on has changed and its obligations must be re-confirmed" % (
                   type(e).__name__, str(e)[:120], where), key="checker.shape|%s|%s" % (prop, where))
    if a.list is not None:
        for o in run.obs:
            if a.list in o["rule"]:
                print("%-9s %s | %s | %s" % (o["verdict"], o["rule"], o["subject"][:70], o["why"][:150]))
    return run.finish(cmd)


if __name__ == "__main__":
    sys.exit(main())
