"""decode core::fmt::Arguments templates (encoding documented in
library/core/src/fmt/mod.rs of the installed rust-src) and recognise
format!/write! values in symbolic terms"""
from . import mir

ARG = "\x00ARG"


def decode_template(b):
    """-> list of str pieces and ("arg", index, has_options) placeholders, or None if malformed"""
    out = []
    i = 0
    nxt = 0
    n = len(b)
    while i < n:
        c = b[i]
        i += 1
        if c == 0:
            return out if i == n else None
        if c < 0x80:
            out.append(bytes(b[i:i + c]).decode("utf-8", "replace"))
            i += c
        elif c == 0x80:
            ln = b[i] | (b[i + 1] << 8)
            i += 2
            out.append(bytes(b[i:i + ln]).decode("utf-8", "replace"))
            i += ln
        elif c >= 0xC0:
            opts = c != 0xC0
            if c & 1:
                i += 4
            if c & 2:
                i += 2
            if c & 4:
                i += 2
            idx = nxt
            if c & 8:
                idx = b[i] | (b[i + 1] << 8)
                i += 2
            out.append(("arg", idx, opts))
            nxt = idx + 1
        else:
            return None
    return None


def _array_items(t):
    t = mir.strip(t)
    if t[0] == "agg" and t[1] == "array":
        return [t[3][str(i)] for i in range(len(t[3]))]
    return None


def arguments_of(t):
    """t: term of a core::fmt::Arguments value -> (pieces, [(kind, arg term)]) or None"""
    t = mir.strip(t)
    if t[0] != "call":
        return None
    if t[1] == "std::fmt::Arguments::new" and len(t[2]) == 2:
        tpl = mir.strip(t[2][0])
        if tpl[0] != "const" or not isinstance(tpl[1], (bytes, bytearray)):
            return None
        pieces = decode_template(tpl[1])
        if pieces is None:
            return None
        items = _array_items(t[2][1])
        if items is None:
            return None
        args = []
        for it in items:
            it = mir.strip(it)
            if it[0] == "call" and it[1].startswith("core::fmt::rt::Argument::new_") and it[2]:
                args.append((it[1].rsplit("new_", 1)[1], it[2][0]))
            else:
                args.append(("?", it))
        return pieces, args
    if t[1] in ("std::fmt::Arguments::from_str", "std::fmt::Arguments::new_const", "std::fmt::Arguments::from_str_nonconst") and t[2]:
        s = mir.strip(t[2][0])
        if s[0] == "const" and isinstance(s[1], str):
            return [s[1]], []
        if s[0] == "agg" and s[1] == "array":
            ps = []
            for i in range(len(s[3])):
                x = mir.strip(s[3][str(i)])
                if x[0] != "const":
                    return None
                ps.append(x[1])
            return ps, []
    return None


def format_of(t):
    """t: term of a String produced by format!(..) -> (pieces, args) or None"""
    t = mir.strip(t, mir.TRANSPARENT_CALLS + ("std::hint::must_use",))
    if t[0] == "call" and t[1] == "std::fmt::format" and t[2]:
        return arguments_of(t[2][0])
    return None


def template_s(pieces):
    return "".join(p if isinstance(p, str) else "{}" for p in pieces)
