"""Obligation bookkeeping, verdict lines, evidence files, known findings."""
import json
import os
import sys
import time

VERIF = os.path.dirname(os.path.dirname(os.path.abspath(__file__)))
EVID = os.path.join(VERIF, "evidence")
KNOWN = os.path.join(VERIF, "known_findings.json")


class CheckerFailure(Exception):
    """the machinery could not decide (no facts, tree does not compile, ...)"""


def load_known():
    if not os.path.exists(KNOWN):
        return {"known": [], "fixed": []}
    with open(KNOWN) as f:
        return json.load(f)


class Run:
    def __init__(self, prop, tier, level, seed=0):
        self.prop = prop
        self.tier = tier
        self.level = level
        self.seed = seed
        self.t0 = time.time()
        self.obs = []          # every rule instance evaluated
        self.assumptions = []
        self.trusted = []
        self.analysed = {}     # free-form counts of what was looked at
        self.notes = []
        self.explanation = ""
        self.configs = []
        self.tree = None
        known = load_known()
        self.known = {k["key"]: k for k in known.get("known", []) if k.get("property") == prop}
        self.replay_keys = None

    # -- recording ---------------------------------------------------------
    def ob(self, rule, subject, ok, why, site=None, key=None, nontrivial=True, extra=None):
        """record one evaluated rule instance.  `key` identifies a violation
        without line numbers; `site` is for the reader."""
        k = key or "%s|%s" % (rule, subject)
        if self.replay_keys is not None and k not in self.replay_keys:
            return ok
        rec = {"rule": rule, "subject": subject, "verdict": "holds" if ok else "VIOLATION",
               "why": why, "key": k, "nontrivial": bool(nontrivial)}
        if site is not None:
            rec["site"] = site if isinstance(site, str) else site.loc()
        if extra:
            rec.update(extra)
        if not ok and k in self.known:
            rec["verdict"] = "known-finding"
        self.obs.append(rec)
        return ok

    def assume(self, text):
        if text not in self.assumptions:
            self.assumptions.append(text)

    def trust(self, text):
        if text not in self.trusted:
            self.trusted.append(text)

    def count(self, name, n):
        self.analysed[name] = self.analysed.get(name, 0) + n

    def note(self, text):
        self.notes.append(text)

    # -- finishing ---------------------------------------------------------
    def finish(self, cmd):
        viol = [o for o in self.obs if o["verdict"] == "VIOLATION"]
        known = [o for o in self.obs if o["verdict"] == "known-finding"]
        held = [o for o in self.obs if o["verdict"] == "holds"]
        no_ev = bool(os.environ.get("XSGV_NO_EVIDENCE"))
        os.makedirs(EVID, exist_ok=True)
        for o in known:
            print("KNOWN-FINDING: property=%s %s [%s] %s" % (self.prop, o["key"], o.get("site", "-"), self.known[o["key"]].get("what", o["why"])))
        replay = os.path.join(EVID, "%s.violations.json" % self.prop)
        if no_ev:
            replay = "/dev/null"
        if viol:
            with open(replay, "w") as f:
                json.dump({"property": self.prop, "tree": self.tree, "violations": viol}, f, indent=1)
            print("VIOLATION property=%s replay=%s" % (self.prop, replay))
            for o in viol:
                print("  rule=%s site=%s subject=%s" % (o["rule"], o.get("site", "-"), o["subject"]))
                print("    %s" % o["why"])
                print("    key=%s" % o["key"])
        elif os.path.exists(replay) and self.replay_keys is None and not no_ev:
            os.remove(replay)
        distinct = len({o["key"] for o in self.obs if o["nontrivial"]})
        n_ob = len(self.obs)
        n_dis = len(held) + len(known) if self.level != "proof" else len(held)
        samples = []
        seen_rules = set()
        for o in viol + known + held:
            if o["rule"] in seen_rules and o["verdict"] == "holds":
                continue
            seen_rules.add(o["rule"])
            samples.append({k: o[k] for k in ("rule", "subject", "site", "verdict", "why") if k in o})
        cov = {
            "obligations": n_ob,
            "discharged": n_dis,
            "evaluations": n_ob,
            "distinct_nontrivial": distinct,
            "rule": "one evaluation = one rule instance (rule x concrete site/role found in the MIR of /repo's current tree); non-trivial = the instance inspected at least one real site of the crate (anchored obligations, not vacuous zero-site rules); distinct = distinct (rule, function, role) keys",
            "samples": samples[:60],
            "explanation": self.explanation,
            "checker_cmd": cmd,
            "trusted_base": self.trusted,
            "analysed": self.analysed,
            "configurations": self.configs,
            "tree_hash": self.tree,
            "known_findings_reported": [o["key"] for o in known],
            "notes": self.notes,
            "exhaustive": True,
        }
        ev = {
            "property_id": self.prop,
            "tier": self.tier,
            "seed": self.seed,
            "level": self.level,
            "coverage": cov,
            "assumptions": self.assumptions,
            "wall_s": round(time.time() - self.t0, 2),
            "violations": len(viol),
        }
        if self.replay_keys is None and not no_ev:
            with open(os.path.join(EVID, "%s.json" % self.prop), "w") as f:
                json.dump(ev, f, indent=1)
        print("%s: %d rule instances evaluated, %d hold, %d known finding(s), %d violation(s)  [tier=%s tree=%s %.1fs]" % (
            self.prop, n_ob, len(held), len(known), len(viol), self.tier, self.tree, time.time() - self.t0))
        sys.stdout.flush()
        return 1 if viol else 0
