"""Compact text rendering of the fact JSON (for humans and for reports)."""


def ty_s(t):
    return t.get("s", "?") if isinstance(t, dict) else str(t)


def place_s(p):
    s = "_%d" % p["l"]
    for e in p["p"]:
        if e == "deref":
            s = "(*%s)" % s
        elif isinstance(e, dict) and "f" in e:
            s = "%s.%s" % (s, e["f"])
        elif isinstance(e, dict) and "i" in e:
            s = "%s.%d" % (s, e["i"])
        elif isinstance(e, dict) and "dc" in e:
            s = "(%s as %s)" % (s, e["dc"])
        elif isinstance(e, dict) and "idx" in e:
            s = "%s[_%d]" % (s, e["idx"])
        else:
            s = "%s{%s}" % (s, e)
    return s


def const_s(c):
    for k in ("str", "char", "int", "bool"):
        if k in c:
            return "const %r" % (c[k],)
    if "bytes" in c:
        return "const b%r" % (bytes(c["bytes"]),)
    if "fndef" in c["ty"]:
        return "fn %s" % c["ty"]["fndef"]
    if "promoted" in c:
        return "promoted[%d]" % c["promoted"]
    return "const {%s}" % c.get("dbg")


def op_s(o):
    if "copy" in o:
        return place_s(o["copy"])
    if "move" in o:
        return "move " + place_s(o["move"])
    if "const" in o:
        return const_s(o["const"])
    return str(o)


def rv_s(rv):
    k = rv["k"]
    if k == "use":
        return op_s(rv["op"])
    if k == "ref":
        return ("&mut " if rv["mut"] else "&") + place_s(rv["place"])
    if k == "rawptr":
        return "&raw " + place_s(rv["place"])
    if k == "cast":
        return "%s as %s (%s)" % (op_s(rv["op"]), ty_s(rv["ty"]), rv["kind"])
    if k == "binop":
        return "%s(%s, %s)" % (rv["op"], op_s(rv["l"]), op_s(rv["r"]))
    if k == "unop":
        return "%s(%s)" % (rv["op"], op_s(rv["o"]))
    if k == "discr":
        return "discriminant(%s)" % place_s(rv["place"])
    if k == "agg":
        if rv["kind"] == "adt":
            return "%s::%s{%s}" % (rv["adt"], rv["variant"], ", ".join(
                "%s: %s" % (f, op_s(o)) for f, o in zip(rv["fields"], rv["ops"])))
        return "%s(%s)" % (rv.get("closure", rv["kind"]), ", ".join(op_s(o) for o in rv["ops"]))
    return "%s{%s}" % (k, rv.get("d", ""))


def callee_s(c):
    if "indirect" in c:
        return "(indirect %s)" % op_s(c["indirect"])
    return c.get("resolved_full") or c["full"]


def term_s(t):
    k = t["k"]
    if k == "call":
        return "%s = %s(%s) -> %s" % (place_s(t["dest"]), callee_s(t["callee"]),
                                      ", ".join(op_s(a) for a in t["args"]), t["t"])
    if k == "switch":
        return "switch(%s) -> [%s, otherwise: %s]" % (
            op_s(t["op"]), ", ".join("%s: %s" % (v, b) for v, b in t["targets"]), t["otherwise"])
    if k == "goto":
        return "goto -> %s" % t["t"]
    if k == "drop":
        return "drop(%s) -> %s" % (place_s(t["place"]), t["t"])
    if k == "assert":
        return "assert(%s == %s, %s) -> %s" % (op_s(t["cond"]), t["expected"], t["msg"], t["t"])
    return k


def body_s(b, cleanup=False):
    out = ["fn %s  [%s]" % (b["name"], b["span"]["s"])]
    for i, l in enumerate(b["locals"]):
        out.append("  let _%d: %s%s" % (i, ty_s(l["ty"]), ("  // " + l["name"]) if l.get("name") else ""))
    for i, bb in enumerate(b["blocks"]):
        if bb["cleanup"] and not cleanup:
            continue
        out.append("  bb%d%s:" % (i, " (cleanup)" if bb["cleanup"] else ""))
        for st in bb["stmts"]:
            if st["k"] == "assign":
                out.append("    %s = %s   // %s" % (place_s(st["place"]), rv_s(st["rv"]), st["span"]["s"].split(": ")[0]))
            else:
                out.append("    %s" % st)
        sp = bb["term"].get("span", {}).get("s", "").split(": ")[0]
        out.append("    %s   // %s" % (term_s(bb["term"]), sp))
    return "\n".join(out)


if __name__ == "__main__":
    import json, sys
    d = json.load(open(sys.argv[1]))
    for b in d["bodies"]:
        if len(sys.argv) < 3 or any(a in b["name"] for a in sys.argv[2:]):
            print(body_s(b))
            print()
