"""Run the rustc_private driver over a scratch copy of /repo's *current working
tree* and cache the fact files by content hash of that tree."""
import fcntl
import hashlib
import os
import shutil
import subprocess
import sys
import tempfile
import time

from . import mir

VERIF = os.path.dirname(os.path.dirname(os.path.abspath(__file__)))
REPO = os.environ.get("XSGV_REPO", "/repo")
WORK = os.environ.get("XSGV_WORK") or os.path.join(VERIF, ".work")
DRIVER_DIR = os.path.join(VERIF, "driver")
DRIVER = os.path.join(DRIVER_DIR, "target", "release", "xsgv-driver")
CRATE = "xml_schema_generator"

# configuration tag -> (cargo args, wrapper kind, crates to dump)
CONFIGS = {
    "default": {"args": ["--lib", "--bins"], "deps": False},
    "env_logger": {"args": ["--lib", "--bins", "--features", "env_logger"], "deps": False},
    "release": {"args": ["--lib", "--bins", "--release"], "deps": False},
    "deps": {"args": ["--lib"], "deps": True},  # also dumps convert_string
}


class ExtractError(Exception):
    pass


def _sha_file(h, path):
    with open(path, "rb") as f:
        h.update(f.read())


def tree_files(repo=None):
    repo = repo or REPO
    out = []
    for base, dirs, files in os.walk(repo):
        rel = os.path.relpath(base, repo)
        parts = rel.split(os.sep)
        if parts[0] in (".git", "target", "wasm", ".github"):
            dirs[:] = []
            continue
        for f in files:
            p = os.path.join(base, f)
            if f.endswith((".rs", ".toml", ".lock")) or rel.startswith(".cargo"):
                out.append(p)
    return sorted(out)


def tree_hash(repo=None):
    repo = repo or REPO
    h = hashlib.sha256()
    for p in tree_files(repo):
        h.update(os.path.relpath(p, repo).encode() + b"\0")
        _sha_file(h, p)
        h.update(b"\0")
    if os.path.exists(DRIVER):
        _sha_file(h, DRIVER)
    return h.hexdigest()[:24]


def sysroot():
    return subprocess.check_output(["rustc", "+nightly", "--print", "sysroot"], text=True).strip()


def ensure_driver():
    if os.path.exists(DRIVER):
        src_m = max(os.path.getmtime(os.path.join(DRIVER_DIR, "src", f)) for f in os.listdir(os.path.join(DRIVER_DIR, "src")))
        if os.path.getmtime(DRIVER) >= src_m:
            return
    env = dict(os.environ, CARGO_NET_OFFLINE="true")
    r = subprocess.run(["cargo", "+nightly", "build", "--release", "--offline"], cwd=DRIVER_DIR, env=env,
                       stdout=subprocess.PIPE, stderr=subprocess.STDOUT, text=True)
    if r.returncode != 0 or not os.path.exists(DRIVER):
        raise ExtractError("cannot build driver:\n" + r.stdout[-4000:])


class _Lock:
    def __init__(self, name):
        os.makedirs(WORK, exist_ok=True)
        self.path = os.path.join(WORK, name)

    def __enter__(self):
        self.f = open(self.path, "w")
        fcntl.flock(self.f, fcntl.LOCK_EX)

    def __exit__(self, *a):
        fcntl.flock(self.f, fcntl.LOCK_UN)
        self.f.close()


def copy_tree(repo, dst):
    def ignore(d, names):
        rel = os.path.relpath(d, repo)
        if rel == ".":
            return [n for n in names if n in (".git", "target", "wasm", ".github")]
        return []
    shutil.copytree(repo, dst, ignore=ignore, symlinks=True)


def _prune_cache(keep=40):
    root = os.path.join(WORK, "facts")
    if not os.path.isdir(root):
        return
    ds = sorted((os.path.getmtime(os.path.join(root, d)), d) for d in os.listdir(root))
    for _, d in ds[:-keep]:
        shutil.rmtree(os.path.join(root, d), ignore_errors=True)


def extract(tag="default", repo=None, log=None):
    """returns {"lib": path, "bin": path, ...dep crates} for configuration `tag`"""
    repo = repo or REPO
    cfg = CONFIGS[tag]
    ensure_driver()
    th = tree_hash(repo)
    out_dir = os.path.join(WORK, "facts", th, tag)
    ok = os.path.join(out_dir, ".ok")

    def result():
        res = {}
        for f in os.listdir(out_dir):
            if f.endswith(".json"):
                parts = f.split(".")
                key = parts[1] if parts[0] == CRATE else parts[0]
                res[key] = os.path.join(out_dir, f)
        return res

    with _Lock("extract.lock"):
        if os.path.exists(ok):
            os.utime(os.path.join(WORK, "facts", th))
            return result(), th, True
        if os.path.isdir(out_dir):
            shutil.rmtree(out_dir)
        os.makedirs(out_dir)
        scratch = tempfile.mkdtemp(prefix="xsgv-src-")
        try:
            src = os.path.join(scratch, "src-tree")
            copy_tree(repo, src)
            target = os.path.join(WORK, "target", tag)
            os.makedirs(target, exist_ok=True)
            # never let cargo's freshness cache skip the driver for the member crate
            prof = "release" if "--release" in cfg["args"] else "debug"
            for sub in (".fingerprint", "deps", "incremental"):
                d = os.path.join(target, prof, sub)
                if os.path.isdir(d):
                    for n in os.listdir(d):
                        if CRATE in n or (cfg["deps"] and "convert_string" in n):
                            p = os.path.join(d, n)
                            shutil.rmtree(p, ignore_errors=True) if os.path.isdir(p) else os.remove(p)
            env = dict(os.environ)
            env.update({
                "CARGO_NET_OFFLINE": "true",
                "CARGO_INCREMENTAL": "0",
                "LD_LIBRARY_PATH": sysroot() + "/lib",
                "RUSTFLAGS": "-Zmir-opt-level=0 -Awarnings",
                "CARGO_TARGET_DIR": target,
                "XSGV_OUT": out_dir,
                "XSGV_TAG": tag,
            })
            env.pop("RUSTC_WRAPPER", None)
            env.pop("RUSTC_WORKSPACE_WRAPPER", None)
            if cfg["deps"]:
                env["RUSTC_WRAPPER"] = DRIVER
                env["XSGV_CRATES"] = CRATE + ",convert_string"
            else:
                env["RUSTC_WORKSPACE_WRAPPER"] = DRIVER
                env["XSGV_CRATES"] = CRATE
            t0 = time.time()
            r = subprocess.run(["cargo", "+nightly", "check", "--offline"] + cfg["args"], cwd=src, env=env,
                               stdout=subprocess.PIPE, stderr=subprocess.STDOUT, text=True)
            if log:
                log("extract[%s] %.1fs rc=%d" % (tag, time.time() - t0, r.returncode))
            if r.returncode != 0:
                raise ExtractError("cargo check failed on /repo's working tree (config %s):\n%s" % (tag, r.stdout[-6000:]))
            res = result()
            need = ["lib"] + (["bin"] if "--bins" in cfg["args"] else []) + (["convert_string"] if cfg["deps"] else [])
            for k in need:
                if k not in res:
                    raise ExtractError("driver did not run for %s (config %s); cargo output:\n%s" % (k, tag, r.stdout[-3000:]))
            open(ok, "w").write(th)
            _prune_cache()
            return res, th, False
        finally:
            shutil.rmtree(scratch, ignore_errors=True)


def load(tag="default", repo=None, log=None):
    files, th, cached = extract(tag, repo, log)
    crates = {k: mir.load_crate(p) for k, p in files.items()}
    return crates, th, cached


if __name__ == "__main__":
    t = time.time()
    tag = sys.argv[1] if len(sys.argv) > 1 else "default"
    files, th, cached = extract(tag, log=print)
    print(th, "cached" if cached else "fresh", "%.1fs" % (time.time() - t))
    for k, v in files.items():
        print(" ", k, v, os.path.getsize(v))
