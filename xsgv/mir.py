"""Analysis core over the fact JSON written by driver/: CFG, dominators,
post-dominators, control dependence, natural loops, def/use chains, place
canonicalisation through reference temporaries, backward value slices,
call graph and SCCs.  Pure python3 stdlib; nothing of the analysed crate is
executed."""
import json
from collections import defaultdict

from . import pp

EXIT = -1


# --------------------------------------------------------------------------
# small helpers on JSON operands/places

def op_place(o):
    """place read by an operand or None for constants"""
    if "copy" in o:
        return o["copy"]
    if "move" in o:
        return o["move"]
    return None


def op_const(o):
    return o.get("const")


def const_value(c):
    for k in ("str", "char", "int", "bool"):
        if k in c:
            return c[k]
    if "bytes" in c:
        return bytes(c["bytes"])
    return None


def place_key(p):
    """hashable canonical form of a place (local + projection names)"""
    proj = []
    for e in p["p"]:
        if e == "deref":
            proj.append("*")
        elif "f" in e:
            proj.append(("f", e.get("adt"), e.get("variant"), e["f"]))
        elif "i" in e:
            proj.append(("i", e["i"]))
        elif "dc" in e:
            proj.append(("dc", e["dc"]))
        elif "idx" in e:
            proj.append(("idx", e["idx"]))
        else:
            proj.append(("o", json.dumps(e, sort_keys=True)))
    return (p["l"], tuple(proj))


def place_fields(p):
    """list of (adt, field) names touched along the projection"""
    return [(e.get("adt"), e["f"]) for e in p["p"] if isinstance(e, dict) and "f" in e]


def callee_names(c):
    """all names a callee is known by (declared path, resolved path)"""
    out = []
    for k in ("path", "resolved", "full", "resolved_full"):
        if c.get(k):
            out.append(c[k])
    return out


def short_span(sp):
    return (sp or {}).get("s", "?").split(": ")[0]


def line_of(sp):
    s = short_span(sp)
    parts = s.split(":")
    return ":".join(parts[:2]) if len(parts) >= 2 else s


# --------------------------------------------------------------------------

class Site:
    """a statement or terminator position inside a body"""
    __slots__ = ("body", "bb", "si")

    def __init__(self, body, bb, si):
        self.body, self.bb, self.si = body, bb, si  # si = None for terminator

    @property
    def node(self):
        blk = self.body.blocks[self.bb]
        return blk["term"] if self.si is None else blk["stmts"][self.si]

    @property
    def span(self):
        n = self.node
        return n.get("span") or {}

    def loc(self):
        return line_of(self.span)

    def __repr__(self):
        return "%s@bb%d%s(%s)" % (self.body.name, self.bb,
                                  "" if self.si is None else ".%d" % self.si, self.loc())

    def key(self):
        return (self.body.name, self.bb, -1 if self.si is None else self.si)

    def __eq__(self, o):
        return isinstance(o, Site) and self.key() == o.key()

    def __hash__(self):
        return hash(self.key())


class Body:
    def __init__(self, j, crate):
        self.j = j
        self.crate = crate
        self.name = j["name"]
        self.kind = j["kind"]
        self.blocks = j["blocks"]
        self.locals = j["locals"]
        self.arg_count = j["arg_count"]
        self.span = j["span"]
        self.n = len(self.blocks)
        self._succ = None
        self._pred = None
        self._dom = None
        self._pdom = None
        self._cd = None
        self._defs = None
        self._reach = None
        self._refdefs = None

    def __repr__(self):
        return "<Body %s>" % self.name

    # ---------------- CFG (normal edges only; unwind edges are not exported)
    def succs(self, i):
        if self._succ is None:
            self._succ = []
            for bb in self.blocks:
                t = bb["term"]
                k = t["k"]
                if k == "goto":
                    s = [t["t"]]
                elif k == "switch":
                    s = []
                    for _, b in t["targets"]:
                        if b not in s:
                            s.append(b)
                    if t["otherwise"] not in s:
                        s.append(t["otherwise"])
                elif k in ("call", "drop", "assert"):
                    s = [t["t"]] if t.get("t") is not None else []
                else:
                    s = []
                # an `unreachable` successor is not a real edge
                self._succ.append(s)
            # prune edges into blocks that are plain `unreachable`
            for i2, s in enumerate(self._succ):
                self._succ[i2] = [b for b in s if not self.is_unreachable_block(b)]
        return self._succ[i]

    def is_unreachable_block(self, b):
        blk = self.blocks[b]
        return blk["term"]["k"] == "unreachable" and not blk["stmts"]

    def preds(self, i):
        if self._pred is None:
            self._pred = [[] for _ in range(self.n)]
            for a in range(self.n):
                for b in self.succs(a):
                    self._pred[b].append(a)
        return self._pred[i]

    def reachable(self):
        if self._reach is None:
            seen = {0}
            st = [0]
            while st:
                a = st.pop()
                for b in self.succs(a):
                    if b not in seen:
                        seen.add(b)
                        st.append(b)
            self._reach = seen
        return self._reach

    def reach_from(self, start, avoid=(), avoid_edges=()):
        """blocks reachable from block `start` (inclusive) without entering `avoid`"""
        avoid = set(avoid)
        avoid_edges = set(avoid_edges)
        if start in avoid:
            return set()
        seen = {start}
        st = [start]
        while st:
            a = st.pop()
            for b in self.succs(a):
                if b in avoid or (a, b) in avoid_edges or b in seen:
                    continue
                seen.add(b)
                st.append(b)
        return seen

    def exits(self):
        """blocks with no normal successor (return / diverging call / unreachable)"""
        return [i for i in self.reachable() if not self.succs(i)]

    def return_blocks(self):
        return [i for i in self.reachable() if self.blocks[i]["term"]["k"] == "return"]

    # ---------------- dominators (iterative, small graphs)
    def _dominators(self, entry_nodes, succ, pred, nodes):
        dom = {n: set(nodes) for n in nodes}
        for e in entry_nodes:
            dom[e] = {e}
        changed = True
        while changed:
            changed = False
            for n in nodes:
                if n in entry_nodes:
                    continue
                ps = [p for p in pred(n) if p in dom]
                if not ps:
                    new = {n}
                else:
                    new = set.intersection(*(dom[p] for p in ps)) | {n}
                if new != dom[n]:
                    dom[n] = new
                    changed = True
        return dom

    def dom(self):
        if self._dom is None:
            nodes = sorted(self.reachable())
            self._dom = self._dominators({0}, self.succs, lambda n: [p for p in self.preds(n) if p in self.reachable()], nodes)
        return self._dom

    def dominates(self, a, b):
        return a in self.dom().get(b, ())

    def pdom(self):
        if self._pdom is None:
            nodes = sorted(self.reachable()) + [EXIT]
            exits = set(self.exits())

            def rsucc(n):  # predecessors in the reversed graph = successors
                if n == EXIT:
                    return []
                s = list(self.succs(n))
                if n in exits:
                    s.append(EXIT)
                return s
            self._pdom = self._dominators({EXIT}, None, rsucc, nodes)
        return self._pdom

    def postdominates(self, a, b):
        return a in self.pdom().get(b, ())

    def control_deps(self):
        """map block -> set of (branch_block, successor) edges it is control dependent on"""
        if self._cd is None:
            pd = self.pdom()
            cd = defaultdict(set)
            for a in self.reachable():
                ss = self.succs(a)
                if len(ss) < 2:
                    continue
                for s in ss:
                    # nodes that postdominate s (incl. s) but do not strictly postdominate a
                    for n in pd[s]:
                        if n == EXIT:
                            continue
                        if n == a or n not in pd[a]:
                            cd[n].add((a, s))
            self._cd = cd
        return self._cd

    def transitive_control_deps(self, b, forward_only=True):
        """branch edges (a, s) the block is transitively control dependent on.  With
        forward_only, loop-carried dependences (edges from which the block is only reachable by
        passing the branch again, i.e. decisions of an earlier iteration) are left out."""
        seen = set()
        work = [b]
        out = set()
        if not hasattr(self, "_fwd_cache"):
            self._fwd_cache = {}
        while work:
            x = work.pop()
            for (a, s) in self.control_deps().get(x, ()):
                if forward_only and a != x:
                    k = (a, s)
                    if k not in self._fwd_cache:
                        self._fwd_cache[k] = self.reach_from(s, avoid={a})
                    if x not in self._fwd_cache[k] or b not in self._fwd_cache[k]:
                        continue
                elif forward_only and a == x:
                    continue
                if (a, s) not in out:
                    out.add((a, s))
                    if a not in seen:
                        seen.add(a)
                        work.append(a)
        return out

    # ---------------- loops
    def back_edges(self):
        out = []
        for a in self.reachable():
            for b in self.succs(a):
                if self.dominates(b, a):
                    out.append((a, b))
        return out

    def loops(self):
        """natural loops: header -> set of blocks"""
        res = {}
        for (a, h) in self.back_edges():
            body = {h, a}
            st = [a]
            while st:
                x = st.pop()
                if x == h:
                    continue
                for p in self.preds(x):
                    if p in self.reachable() and p not in body:
                        body.add(p)
                        st.append(p)
            res.setdefault(h, set()).update(body)
        return res

    # ---------------- sites
    def sites(self):
        for i in sorted(self.reachable()):
            bb = self.blocks[i]
            for si in range(len(bb["stmts"])):
                yield Site(self, i, si)
            yield Site(self, i, None)

    def calls(self, pred=None):
        for i in sorted(self.reachable()):
            t = self.blocks[i]["term"]
            if t["k"] == "call" and (pred is None or pred(t)):
                yield Site(self, i, None)

    def calls_to(self, *needles):
        """call sites whose declared or resolved callee name contains any needle"""
        def p(t):
            names = callee_names(t["callee"])
            return any(n in nm for n in needles for nm in names)
        return list(self.calls(p))

    def assigns(self):
        for s in self.sites():
            if s.si is not None and s.node["k"] == "assign":
                yield s

    # ---------------- defs
    def defs(self):
        """local -> list of Site that (partly) write it (assign statements, call destinations)"""
        if self._defs is None:
            d = defaultdict(list)
            for s in self.sites():
                n = s.node
                if s.si is not None and n["k"] in ("assign", "setdiscr"):
                    d[n["place"]["l"]].append(s)
                elif s.si is None and n["k"] == "call":
                    d[n["dest"]["l"]].append(s)
            self._defs = d
        return self._defs

    def ref_target(self, local):
        """if `local` is a temporary with exactly one definition `&[mut] P`
        (or a plain copy/move of such a temporary) return P, else None"""
        if self._refdefs is None:
            self._refdefs = {}
        if local in self._refdefs:
            return self._refdefs[local]
        self._refdefs[local] = None
        ds = self.defs().get(local, [])
        res = None
        if len(ds) == 1 and ds[0].si is not None and ds[0].node["k"] == "assign" and not ds[0].node["place"]["p"]:
            rv = ds[0].node["rv"]
            if rv["k"] in ("ref", "rawptr"):
                res = rv["place"]
            elif rv["k"] == "use" and op_place(rv["op"]) is not None:
                p = op_place(rv["op"])
                if not p["p"]:
                    res0 = self.ref_target(p["l"])
                    if res0 is not None:
                        res = res0
        self._refdefs[local] = res
        return res

    def canon(self, place, depth=0):
        """rewrite `(*_t).x` into `P.x` when _t is a single-def reference temp to P"""
        if depth > 20:
            return place
        proj = place["p"]
        if proj and proj[0] == "deref":
            tgt = self.ref_target(place["l"])
            if tgt is not None:
                return self.canon({"l": tgt["l"], "p": list(tgt["p"]) + list(proj[1:]), "ty": place.get("ty")}, depth + 1)
        return place

    def through_ref(self, place, depth=0):
        """canonical place an operand place denotes or points to: a bare
        reference temporary `_t` (single def `&P`) is replaced by P"""
        place = self.canon(place)
        while depth < 20 and not place["p"]:
            tgt = self.ref_target(place["l"])
            if tgt is None:
                break
            place = self.canon(tgt)
            depth += 1
        return place

    def local_name(self, l):
        return self.locals[l].get("name")

    def local_ty(self, l):
        return self.locals[l]["ty"]

    def is_drop_flag(self, l):
        """compiler drop flag: unnamed bool only ever assigned bool constants"""
        if self.local_name(l) or self.local_ty(l).get("prim") != "bool":
            return False
        ds = self.defs().get(l, [])
        if not ds:
            return False
        for s in ds:
            n = s.node
            if s.si is None or n["k"] != "assign":
                return False
            rv = n["rv"]
            if rv["k"] != "use" or "const" not in rv["op"]:
                return False
            if not short_span(n.get("span")).startswith("src/") and False:
                return False
        # user bools are named (debug info); unnamed const-only bools are flags
        return True

    # ---------------- value slices
    def origins(self, operand_or_place, transparent=None, _seen=None, through_fields=True):
        """Backward slice (flow-insensitive over locals): set of atoms
        ('const', value) | ('arg', n, proj) | ('call', Site) | ('agg', Site) |
        ('op', Site) | ('discr', Site) | ('unknown', ...).  A call whose callee
        is in `transparent` (predicate on the call terminator) is looked
        through to its arguments."""
        if _seen is None:
            _seen = set()
        out = set()
        if "l" in operand_or_place:
            place = operand_or_place
        else:
            c = op_const(operand_or_place)
            if c is not None:
                v = const_value(c)
                if v is None and "fndef" in c["ty"]:
                    return {("fn", c["ty"]["fndef"])}
                if v is None and "promoted" in c:
                    return {("promoted", c["promoted"])}
                return {("const", v if v is not None else c.get("dbg"))}
            place = op_place(operand_or_place)
            if place is None:
                return {("unknown", json.dumps(operand_or_place)[:80])}
        place = self.canon(place)
        l = place["l"]
        key = (l,)
        if key in _seen:
            return out
        _seen.add(key)
        if 1 <= l <= self.arg_count:
            out.add(("arg", l, place_key(place)[1]))
        for s in self.defs().get(l, []):
            n = s.node
            if s.si is None:  # call dest
                if transparent is not None and transparent(n):
                    for a in n["args"]:
                        out |= self.origins(a, transparent, _seen)
                else:
                    out.add(("call", s))
            elif n["k"] == "assign":
                rv = n["rv"]
                k = rv["k"]
                if k == "use":
                    out |= self.origins(rv["op"], transparent, _seen)
                elif k in ("ref", "rawptr"):
                    out |= self.origins(rv["place"], transparent, _seen)
                elif k == "cast":
                    out |= self.origins(rv["op"], transparent, _seen)
                elif k == "agg":
                    out.add(("agg", s))
                    if through_fields:
                        for o in rv["ops"]:
                            out |= self.origins(o, transparent, _seen)
                elif k == "discr":
                    out.add(("discr", s))
                    out |= self.origins(rv["place"], transparent, _seen)
                elif k in ("binop", "unop"):
                    out.add(("op", s))
                    for kk in ("l", "r", "o"):
                        if kk in rv:
                            out |= self.origins(rv[kk], transparent, _seen)
                else:
                    out.add(("unknown", pp.rv_s(rv)[:60]))
        return out

    def uses_of_local(self, l):
        """sites that read local l (through any projection, after canonicalisation)"""
        out = []
        for s in self.sites():
            for p in site_reads(s):
                if self.canon(p)["l"] == l:
                    out.append(s)
                    break
        return out

    def text(self):
        return pp.body_s(self.j)


def site_reads(site):
    """places read by a statement/terminator"""
    n = site.node
    out = []

    def op(o):
        p = op_place(o)
        if p is not None:
            out.append(p)
    if site.si is not None:
        if n["k"] == "assign":
            rv = n["rv"]
            k = rv["k"]
            if k in ("use", "cast"):
                op(rv["op"])
            elif k in ("ref", "rawptr", "discr"):
                out.append(rv["place"])
            elif k == "binop":
                op(rv["l"]); op(rv["r"])
            elif k == "unop":
                op(rv["o"])
            elif k == "agg":
                for o in rv["ops"]:
                    op(o)
    else:
        k = n["k"]
        if k == "call":
            for a in n["args"]:
                op(a)
            if "indirect" in n["callee"]:
                op(n["callee"]["indirect"])
        elif k == "switch":
            op(n["op"])
        elif k == "assert":
            op(n["cond"])
        elif k == "drop":
            pass
    return out


# --------------------------------------------------------------------------

class Crate:
    def __init__(self, j):
        self.j = j
        self.name = j["crate"]
        self.is_bin = "Executable" in j["crate_types"]
        self.bodies = {}
        for b in j["bodies"]:
            self.bodies[b["name"]] = Body(b, self)
        self.fns = {f["path"]: f for f in j["fns"]}
        self.adts = {a["path"]: a for a in j["adts"]}
        self.statics = j["statics"]
        self.impls = j["impls"]

    def body(self, name):
        return self.bodies.get(name)

    def find_bodies(self, suffix):
        return [b for n, b in self.bodies.items() if n == suffix or n.endswith("::" + suffix)]

    def real_bodies(self):
        return [b for b in self.bodies.values() if b.kind != "promoted"]

    def promoted(self, body, idx):
        return self.bodies.get("%s::promoted[%d]" % (body.name, idx))

    # call graph among local bodies (closures are linked to the body creating them)
    def local_callees(self, body):
        out = set()
        for s in body.calls():
            c = s.node["callee"]
            for nm in (c.get("resolved"), c.get("path")):
                if nm in self.bodies:
                    out.add(nm)
            # closures / fn items passed as arguments
            for a in s.node["args"]:
                ty = None
                if op_place(a) is not None:
                    ty = body.canon(op_place(a)).get("ty") or {}
                    ty = body.locals[op_place(a)["l"]]["ty"] if not op_place(a)["p"] else op_place(a).get("ty", {})
                elif "const" in a:
                    ty = a["const"]["ty"]
                if ty:
                    for k in ("closure", "fndef"):
                        if ty.get(k) in self.bodies:
                            out.add(ty[k])
        # closures built in this body
        for s in body.assigns():
            rv = s.node["rv"]
            if rv["k"] == "agg" and rv.get("closure") in self.bodies:
                out.add(rv["closure"])
        # zero-capture closures / fn items appear as constants of closure/fndef type
        for s in body.sites():
            for o in site_operands(s):
                if "const" in o:
                    ty = o["const"]["ty"]
                    for k in ("closure", "fndef"):
                        if ty.get(k) in self.bodies:
                            out.add(ty[k])
        out.discard(None)
        return out

    def callgraph(self):
        if getattr(self, "_cg", None) is None:
            self._cg = {b.name: self.local_callees(b) for b in self.real_bodies()}
        return self._cg

    def reachable_from(self, roots):
        cg = self.callgraph()
        seen = set()
        st = [r for r in roots if r in cg]
        while st:
            x = st.pop()
            if x in seen:
                continue
            seen.add(x)
            st.extend(cg.get(x, ()))
        return seen

    def sccs(self):
        """Tarjan; returns list of SCCs (as sorted lists) that contain a cycle"""
        if getattr(self, "_sccs", None) is not None:
            return self._sccs
        self._sccs = self._compute_sccs()
        return self._sccs

    def _compute_sccs(self):
        cg = self.callgraph()
        index = {}
        low = {}
        stack = []
        on = set()
        res = []
        counter = [0]

        import sys
        sys.setrecursionlimit(10000)

        def strong(v):
            index[v] = low[v] = counter[0]
            counter[0] += 1
            stack.append(v)
            on.add(v)
            for w in cg.get(v, ()):
                if w not in cg:
                    continue
                if w not in index:
                    strong(w)
                    low[v] = min(low[v], low[w])
                elif w in on:
                    low[v] = min(low[v], index[w])
            if low[v] == index[v]:
                comp = []
                while True:
                    w = stack.pop()
                    on.discard(w)
                    comp.append(w)
                    if w == v:
                        break
                if len(comp) > 1 or v in cg.get(v, ()):
                    res.append(sorted(comp))
        for v in sorted(cg):
            if v not in index:
                strong(v)
        return res


def site_operands(site):
    n = site.node
    out = []
    if site.si is not None:
        if n["k"] == "assign":
            rv = n["rv"]
            for kk in ("op", "l", "r", "o"):
                if kk in rv and isinstance(rv[kk], dict):
                    out.append(rv[kk])
            if rv["k"] == "agg":
                out.extend(rv["ops"])
    else:
        if n["k"] == "call":
            out.extend(n["args"])
            if "indirect" in n["callee"]:
                out.append(n["callee"]["indirect"])
        elif n["k"] == "switch":
            out.append(n["op"])
        elif n["k"] == "assert":
            out.append(n["cond"])
    return out


def load_crate(path):
    with open(path) as f:
        return Crate(json.load(f))


# --------------------------------------------------------------------------
# enum switches

def switch_enum(body, bb):
    """for a block ending in `switch(move _d)` where _d = discriminant(P):
    return (place P, enum path, {variant name: target block}, otherwise block,
    all variants of the enum) or None"""
    t = body.blocks[bb]["term"]
    if t["k"] != "switch":
        return None
    p = op_place(t["op"])
    if p is None or p["p"]:
        return None
    ds = body.defs().get(p["l"], [])
    if any(not (d.si is not None and d.node["k"] == "assign" and d.node["rv"]["k"] == "discr") for d in ds):
        return None
    if len(ds) > 1:
        # a block duplicated by jump threading shares its locals with the copy: the definition that counts is the one
        # in the switching block itself (every definition is a discriminant read, the last one in this block wins)
        here = [d for d in ds if d.bb == bb]
        ds = here[-1:] if here else []
    if len(ds) != 1 or "enum" not in ds[0].node["rv"]:
        return None
    rv = ds[0].node["rv"]
    variants = rv["variants"]
    arms = {}
    for v, b in t["targets"]:
        name = variants.get(str(v))
        if name is not None:
            arms[name] = b
    return {"place": rv["place"], "enum": rv["enum"], "arms": arms, "otherwise": t["otherwise"],
            "variants": list(variants.values()), "site": Site(body, bb, None)}


def variant_target(sw, body, name):
    """block reached for variant `name` (explicit arm or otherwise), None if
    the otherwise block is unreachable"""
    if name in sw["arms"]:
        return sw["arms"][name]
    o = sw["otherwise"]
    if body.is_unreachable_block(o):
        return None
    return o


# --------------------------------------------------------------------------
# symbolic terms: a small expression tree obtained by following single-definition
# temporaries backwards.  Terms are tuples:
#   ("const", value) ("fn", path) ("arg", n) ("local", l)  [multi-def / named variable]
#   ("call", normalised callee name, [arg terms], Site)
#   ("ref", term) ("proj", term, projection tuple) ("binop", op, l, r) ("unop", op, t)
#   ("agg", adt|kind, variant, {field: term}) ("discr", term) ("cast", term) ("promoted", n)

def _norm(path):
    out = []
    depth = 0
    for ch in path or "":
        if ch == "<":
            depth += 1
        elif ch == ">":
            depth -= 1
        elif depth == 0:
            out.append(ch)
    s = "".join(out)
    while "::::" in s:
        s = s.replace("::::", "::")
    return s.strip(":")


def _proj_key(proj):
    return place_key({"l": 0, "p": proj})[1]


def term_of(body, x, depth=0, stop_named=True):
    """term for an operand or place"""
    if depth > 40:
        return ("deep",)
    if "l" not in x:
        c = op_const(x)
        if c is not None:
            v = const_value(c)
            if v is not None:
                return ("const", v)
            if "fndef" in c["ty"]:
                return ("fn", c["ty"]["fndef"])
            if "closure" in c["ty"]:
                return ("fn", c["ty"]["closure"])
            if "promoted" in c:
                if "promoted_owner" in c:
                    pb = body.crate.bodies.get("%s::promoted[%d]" % (c["promoted_owner"], c["promoted"]))
                else:
                    pb = body.crate.promoted(body, c["promoted"]) if body.kind != "promoted" else None
                if pb is not None:
                    # promoted bodies compute a reference to a constant in _0
                    return term_of(pb, {"l": 0, "p": []}, depth + 1)
                return ("promoted", c["promoted"])
            return ("const", c.get("dbg"))
        x = op_place(x)
        if x is None:
            return ("unknown",)
    place = body.canon(x)
    l = place["l"]
    base = _local_term(body, l, depth, stop_named)
    proj = list(place["p"])
    if proj and isinstance(proj[0], dict) and "dc" in proj[0]:
        base = _refine_variant(body, base, proj[0]["dc"], depth, stop_named)
    return _apply_proj(base, proj)


def _refine_variant(body, base, dc, depth, stop_named):
    """`(x as V).f` can only read a value built as variant V: select the definition of x that builds V.
    `Try::branch(r) as Continue` reads the Ok/Some payload of r (std's Try impls for Result and Option)."""
    if base[0] == "local":
        alts = _alternatives(body, base[1], depth, stop_named, frozenset())
        if alts:
            keep = [a for a in alts if not (a[0] == "agg" and a[2] is not None and a[2] != dc)]
            if dc in ("Ok", "Some"):
                keep = [a for a in keep if not (a[0] == "call" and a[1] == "std::ops::FromResidual::from_residual")]
            if len(keep) == 1 and len(keep) < len(alts):
                return keep[0]
        return base
    if base[0] == "call" and base[1] == "std::ops::Try::branch" and base[2] and dc == "Continue":
        inner = base[2][0]
        cands = [inner]
        if inner[0] == "local":
            cands = _alternatives(body, inner[1], depth, stop_named, frozenset()) or [inner]
        keep = [a for a in cands if not (a[0] == "agg" and a[2] in ("Err", "None")) and
                not (a[0] == "call" and a[1] == "std::ops::FromResidual::from_residual")]
        if len(keep) == 1 and keep[0][0] == "agg" and keep[0][2] in ("Ok", "Some") and keep[0][3]:
            return ("agg", "std::ops::ControlFlow", "Continue", {"0": list(keep[0][3].values())[0]})
    return base


def _apply_proj(base, proj):
    while proj:
        e = proj[0]
        if e == "deref" and base[0] == "ref":
            base = base[1]
            proj = proj[1:]
            continue
        if isinstance(e, dict) and "f" in e and base[0] == "agg" and e["f"] in base[3]:
            base = base[3][e["f"]]
            proj = proj[1:]
            continue
        if isinstance(e, dict) and "i" in e and "f" not in e and base[0] == "agg" and str(e["i"]) in base[3]:
            base = base[3][str(e["i"])]
            proj = proj[1:]
            continue
        if isinstance(e, dict) and "dc" in e and base[0] == "agg" and base[2] == e["dc"]:
            proj = proj[1:]
            continue
        break
    if proj:
        if base[0] == "proj":
            return ("proj", base[1], base[2] + _proj_key(proj))
        return ("proj", base, _proj_key(proj))
    return base


def _local_term(body, l, depth, stop_named):
    if 1 <= l <= body.arg_count:
        return ("arg", l)
    ds = body.defs().get(l, [])
    whole = [d for d in ds if (d.si is None) or (d.node["k"] == "assign" and not d.node["place"]["p"])]
    if len(ds) != 1 or len(whole) != 1:
        if len(ds) > 1 and len(whole) == len(ds):
            alts = _alternatives(body, l, depth, stop_named, frozenset())
            if alts is not None and len(alts) == 1:
                return alts[0]
        return ("local", l)
    return _def_term(body, whole[0], depth, stop_named)


def _alternatives(body, l, depth, stop_named, seen):
    """terms of all definitions of a local that is only ever assigned as a whole (copies of other such locals are
    followed); identical alternatives are merged.  None if some definition is partial."""
    if 1 <= l <= body.arg_count or l in seen or depth > 30:
        return None
    ds = body.defs().get(l, [])
    if not ds:
        return None
    out = []
    for d in ds:
        n = d.node
        if d.si is not None:
            if n["k"] != "assign" or n["place"]["p"]:
                return None
            rv = n["rv"]
            if rv["k"] == "use":
                p = op_place(rv["op"])
                if p is not None and not p["p"] and len(body.defs().get(p["l"], [])) > 1:
                    sub = _alternatives(body, p["l"], depth + 1, stop_named, seen | {l})
                    if sub is None:
                        return None
                    for t in sub:
                        if t not in out:
                            out.append(t)
                    continue
        t = _def_term(body, d, depth + 1, stop_named)
        if t not in out:
            out.append(t)
    return out


def _def_term(body, d, depth, stop_named):
    n = d.node
    if d.si is None:
        return ("call", _norm(n["callee"].get("path", "")), [term_of(body, a, depth + 1, stop_named) for a in n["args"]], d)
    rv = n["rv"]
    k = rv["k"]
    if k == "use":
        return term_of(body, rv["op"], depth + 1, stop_named)
    if k in ("ref", "rawptr"):
        return ("ref", term_of(body, rv["place"], depth + 1, stop_named))
    if k == "cast":
        return ("cast", term_of(body, rv["op"], depth + 1, stop_named), rv["kind"])
    if k == "binop":
        return ("binop", rv["op"], term_of(body, rv["l"], depth + 1, stop_named), term_of(body, rv["r"], depth + 1, stop_named))
    if k == "unop":
        return ("unop", rv["op"], term_of(body, rv["o"], depth + 1, stop_named))
    if k == "discr":
        return ("discr", term_of(body, rv["place"], depth + 1, stop_named))
    if k == "agg":
        if rv["kind"] == "adt":
            names = rv["fields"]
            return ("agg", rv["adt"], rv["variant"], {f: term_of(body, o, depth + 1, stop_named) for f, o in zip(names, rv["ops"])})
        return ("agg", rv.get("closure", rv["kind"]), None, {str(i): term_of(body, o, depth + 1, stop_named) for i, o in enumerate(rv["ops"])})
    return ("unknown", k)


TRANSPARENT_CALLS = ("std::ops::Deref::deref", "std::ops::DerefMut::deref_mut", "std::convert::AsRef::as_ref",
                     "std::borrow::Borrow::borrow", "std::convert::AsMut::as_mut", "std::borrow::BorrowMut::borrow_mut",
                     "std::string::String::as_str", "std::vec::Vec::as_slice", "std::vec::Vec::as_mut_slice",
                     "std::string::String::as_bytes", "core::str::as_bytes")
VALUE_PRESERVING = TRANSPARENT_CALLS + (
    "std::clone::Clone::clone", "std::string::ToString::to_string", "std::borrow::ToOwned::to_owned",
    "std::convert::Into::into", "std::convert::From::from", "core::str::to_string", "core::str::to_owned",
    "std::string::String::clone", "std::hint::must_use")


def strip(t, calls=TRANSPARENT_CALLS):
    """remove references, dereferences, checked-add tuple projections and transparent calls"""
    while True:
        if t[0] == "ref":
            t = t[1]
        elif t[0] == "proj" and all(e == "*" for e in t[2]):
            t = t[1]
        elif t[0] == "proj" and t[1][0] == "binop" and t[1][1].endswith("WithOverflow") and t[2] == (("i", 0),):
            t = ("binop", t[1][1].replace("WithOverflow", ""), t[1][2], t[1][3])
        elif t[0] == "proj" and t[2] and t[2][0] == "*":
            t = ("proj", t[1], t[2][1:])
        elif t[0] == "call" and t[1] in calls and t[2]:
            t = t[2][0]
        elif t[0] == "cast" and "Pointer" in t[2]:
            t = t[1]
        else:
            return t


OK_PRESERVING = ("std::result::Result::map_err", "std::result::Result::or_else", "std::result::Result::inspect_err")


def canon_try(t, depth=0):
    """rewrite the `?` form `(Try::branch(X) as Continue).0` into `(X' as Ok).0` / `(X' as Some).0`, X' being X without
    conversions of the error (map_err keeps the Ok payload); applied to proj bases and call arguments recursively"""
    if depth > 30 or not isinstance(t, tuple) or not t:
        return t
    if t[0] == "proj":
        base = canon_try(t[1], depth + 1)
        proj = t[2]
        nd = tuple(e for e in proj if e != "*")
        sb = strip(base)
        if sb[0] == "call" and sb[1] == "std::ops::Try::branch" and sb[2] and len(nd) >= 2 and nd[0][:2] == ("dc", "Continue") and nd[1][0] == "f":
            x = strip(sb[2][0])
            while x[0] == "call" and x[1] in OK_PRESERVING and x[2]:
                x = strip(x[2][0])
            ty = {}
            if len(sb) > 3:
                targs = sb[3].node["callee"].get("targs") or [{}]
                ty = targs[0]
            if ty.get("adt") == "std::result::Result":
                head = (("dc", "Ok"), ("f", "std::result::Result", "Ok", "0"))
            elif ty.get("adt") == "std::option::Option":
                head = (("dc", "Some"), ("f", "std::option::Option", "Some", "0"))
            else:
                return ("proj", base, proj)
            # drop everything up to and including the Continue payload field
            k = 0
            seen = 0
            for i, e in enumerate(proj):
                if e != "*":
                    seen += 1
                    if seen == 2:
                        k = i + 1
                        break
            rest = tuple(proj[k:])
            if x[0] == "proj":
                return ("proj", x[1], tuple(x[2]) + head + rest)
            return ("proj", x, head + rest)
        if base[0] == "proj":
            return ("proj", base[1], tuple(base[2]) + tuple(proj))
        return ("proj", base, proj)
    if t[0] == "call":
        return (t[0], t[1], [canon_try(a, depth + 1) for a in t[2]]) + tuple(t[3:])
    if t[0] == "ref":
        return ("ref", canon_try(t[1], depth + 1))
    if t[0] == "agg":
        return ("agg", t[1], t[2], {k: canon_try(v, depth + 1) for k, v in t[3].items()})
    return t


def same_place_term(a, b):
    """structural equality of two stripped terms (ignoring Site identity in calls)"""
    a, b = strip(a), strip(b)
    if a[0] != b[0]:
        return False
    if a[0] == "call":
        return a[1] == b[1] and len(a[2]) == len(b[2]) and all(same_place_term(x, y) for x, y in zip(a[2], b[2]))
    if a[0] == "proj":
        return _strip_derefs(a[2]) == _strip_derefs(b[2]) and same_place_term(a[1], b[1])
    if a[0] in ("ref", "discr"):
        return same_place_term(a[1], b[1])
    return a == b


def _strip_derefs(proj):
    return tuple(e for e in proj if e != "*")


def term_s(t, depth=0):
    if depth > 8:
        return "..."
    k = t[0]
    if k == "const":
        return repr(t[1])
    if k == "arg":
        return "arg%d" % t[1]
    if k == "local":
        return "_%d" % t[1]
    if k == "fn":
        return "fn " + t[1]
    if k == "call":
        return "%s(%s)" % (t[1].split("::")[-1] if t[1] else "?", ", ".join(term_s(a, depth + 1) for a in t[2]))
    if k == "ref":
        return "&" + term_s(t[1], depth + 1)
    if k == "proj":
        ps = []
        for e in t[2]:
            if e == "*":
                ps.append("*")
            elif e[0] == "f":
                ps.append("." + str(e[3]))
            elif e[0] == "dc":
                ps.append(" as " + str(e[1]))
            else:
                ps.append(".%s" % (e[1],))
        return "(%s)%s" % (term_s(t[1], depth + 1), "".join(ps))
    if k == "binop":
        return "%s(%s, %s)" % (t[1], term_s(t[2], depth + 1), term_s(t[3], depth + 1))
    if k == "agg":
        return "%s::%s{%s}" % (str(t[1]).split("::")[-1], t[2], ", ".join("%s: %s" % (f, term_s(v, depth + 1)) for f, v in t[3].items()))
    if k in ("discr", "cast", "unop"):
        return "%s(%s)" % (k, term_s(t[-1] if k == "unop" else t[1], depth + 1))
    return str(t[:2])


def subterms(t, depth=0):
    """all subterms (pre-order)"""
    yield t
    if depth > 30:
        return
    k = t[0]
    if k == "call":
        for a in t[2]:
            yield from subterms(a, depth + 1)
    elif k in ("ref", "discr", "cast"):
        yield from subterms(t[1], depth + 1)
    elif k == "proj":
        yield from subterms(t[1], depth + 1)
    elif k == "binop":
        yield from subterms(t[2], depth + 1)
        yield from subterms(t[3], depth + 1)
    elif k == "unop":
        yield from subterms(t[2], depth + 1)
    elif k == "agg":
        for v in t[3].values():
            yield from subterms(v, depth + 1)


# --------------------------------------------------------------------------
# light path-sensitive walk: tracks the statically known enum variant of locals
# (through aggregates, moves and Try::branch) so that `match x { None => Err(..) }?`
# is followed into the Break arm only.

def walk_paths(body, start_bb, visit, state=None, stop=None, limit=4000):
    """DFS over blocks from start_bb.  `visit(bb, state)` is called once per
    (block, state) and returns None to continue, or any other value to end that
    path with that outcome.  Blocks without successors end a path with outcome
    ("exit", bb).  Returns the list of outcomes."""
    outcomes = []
    seen = set()
    stack = [(start_bb, dict(state or {}))]
    steps = 0
    while stack:
        bb, st = stack.pop()
        key = (bb, tuple(sorted(st.items())))
        if key in seen:
            continue
        seen.add(key)
        steps += 1
        if steps > limit:
            outcomes.append(("limit", bb))
            break
        r = visit(bb, st)
        if r is not None:
            outcomes.append(r)
            continue
        if stop is not None and bb in stop:
            outcomes.append(("stop", bb))
            continue
        blk = body.blocks[bb]
        st = dict(st)
        for s in blk["stmts"]:
            if s["k"] != "assign":
                continue
            pl = s["place"]
            rv = s["rv"]
            if pl["p"]:
                continue
            l = pl["l"]
            if rv["k"] == "agg" and rv["kind"] == "adt":
                st[l] = rv["variant"]
            elif rv["k"] == "use" and op_place(rv["op"]) is not None and not op_place(rv["op"])["p"] and op_place(rv["op"])["l"] in st:
                st[l] = st[op_place(rv["op"])["l"]]
            else:
                st.pop(l, None)
        t = blk["term"]
        succ = list(body.succs(bb))
        if t["k"] == "call":
            d = t["dest"]["l"]
            st.pop(d, None)
            nm = _norm(t["callee"].get("path", ""))
            if nm == "std::ops::FromResidual::from_residual":
                ds = (t["dest"].get("ty") or {}).get("adt")
                if ds == "std::result::Result":
                    st[d] = "Err"
                elif ds == "std::option::Option":
                    st[d] = "None"
            if nm == "std::ops::Try::branch" and t["args"]:
                p = op_place(t["args"][0])
                if p is not None and not p["p"] and p["l"] in st:
                    v = st[p["l"]]
                    st[d] = {"Ok": "Continue", "Err": "Break", "Some": "Continue", "None": "Break"}.get(v, None)
                    if st[d] is None:
                        st.pop(d)
        elif t["k"] == "switch":
            sw = switch_enum(body, bb)
            if sw is not None:
                p = body.canon(sw["place"])
                if not p["p"] and p["l"] in st:
                    tgt = variant_target(sw, body, st[p["l"]])
                    if tgt is not None:
                        succ = [tgt]
        if not succ:
            outcomes.append(("exit", bb))
            continue
        for s in succ:
            stack.append((s, st))
    return outcomes


# --------------------------------------------------------------------------
# inlining of crate-local helper calls (facts-level): lets the rule packs look through helper functions
# that a refactoring extracted.  Only direct calls to non-recursive bodies of the same crate are inlined.

import copy


def _shift_place(p, off):
    q = {"l": p["l"] + off, "p": [], "ty": p.get("ty")}
    for e in p["p"]:
        if isinstance(e, dict) and "idx" in e:
            e = dict(e, idx=e["idx"] + off)
        q["p"].append(e)
    return q


def _shift_operand(o, off, owner):
    if "copy" in o:
        return {"copy": _shift_place(o["copy"], off)}
    if "move" in o:
        return {"move": _shift_place(o["move"], off)}
    if "const" in o and "promoted" in o["const"] and "promoted_owner" not in o["const"]:
        c = dict(o["const"], promoted_owner=owner)
        return {"const": c}
    return o


def _shift_rv(rv, off, owner):
    rv = dict(rv)
    for k in ("op", "l", "r", "o"):
        if k in rv and isinstance(rv[k], dict):
            rv[k] = _shift_operand(rv[k], off, owner)
    if "place" in rv:
        rv["place"] = _shift_place(rv["place"], off)
    if "ops" in rv:
        rv["ops"] = [_shift_operand(o, off, owner) for o in rv["ops"]]
    return rv


def inline_calls(crate, body, pred, depth=3, _stack=()):
    """new Body with every direct call to a crate-local body satisfying pred(callee Body, call terminator) replaced
    by the callee's blocks (recursively up to `depth`); recursive callees are never inlined"""
    if depth <= 0:
        return body
    j = copy.deepcopy(body.j)
    blocks = j["blocks"]
    locals_ = j["locals"]
    changed = False
    rec = {n for comp in crate.sccs() for n in comp}
    nb0 = len(blocks)
    for bi in range(nb0):
        t = blocks[bi]["term"]
        if t["k"] != "call" or blocks[bi]["cleanup"]:
            continue
        c = t["callee"]
        callee = crate.bodies.get(c.get("resolved")) or crate.bodies.get(c.get("path"))
        if callee is None or callee.name == body.name or callee.name in _stack or callee.kind == "promoted":
            continue
        if callee.name in rec and (len([x for x in callee.blocks if not x["cleanup"]]) > 16 or callee.loops() or
                                   any(c.node["callee"].get("path") == callee.name for c in callee.calls())):
            continue    # members of a recursion cycle are only looked through when they are small loop-free wrappers
        if not pred(callee, t):
            continue
        if t.get("t") is None and callee.return_blocks():
            continue  # diverging call of a function that can return: leave it alone
        callee = inline_calls(crate, callee, pred, depth - 1, _stack + (body.name,))
        cj = callee.j
        loff = len(locals_)
        boff = len(blocks)
        locals_.extend(copy.deepcopy(cj["locals"]))
        owner = cj.get("inlined_owner", callee.name)
        # argument passing
        for i, a in enumerate(t["args"]):
            pl = {"l": loff + 1 + i, "p": [], "ty": cj["locals"][1 + i]["ty"] if 1 + i < len(cj["locals"]) else {}}
            blocks[bi]["stmts"].append({"k": "assign", "place": pl, "rv": {"k": "use", "op": a}, "span": t.get("span", {})})
        ret_target = t["t"]
        dest = t["dest"]
        for cb in cj["blocks"]:
            nbk = {"cleanup": cb["cleanup"], "stmts": [], "term": None}
            for st in cb["stmts"]:
                st2 = dict(st)
                if "place" in st2:
                    st2["place"] = _shift_place(st2["place"], loff)
                if "rv" in st2:
                    st2["rv"] = _shift_rv(st2["rv"], loff, owner)
                nbk["stmts"].append(st2)
            ct = dict(cb["term"])
            k = ct["k"]
            if k == "return":
                if ret_target is None:
                    ct = {"k": "unreachable"}
                else:
                    nbk["stmts"].append({"k": "assign", "place": dest, "rv": {"k": "use", "op": {"move": {"l": loff, "p": [], "ty": cj["locals"][0]["ty"]}}},
                                         "span": t.get("span", {})})
                    ct = {"k": "goto", "t": ret_target}
            else:
                if k == "goto":
                    ct["t"] = ct["t"] + boff
                elif k == "switch":
                    ct["op"] = _shift_operand(ct["op"], loff, owner)
                    ct["targets"] = [[v, b2 + boff] for v, b2 in ct["targets"]]
                    ct["otherwise"] = ct["otherwise"] + boff
                elif k in ("drop", "assert"):
                    ct["t"] = ct["t"] + boff
                    if "place" in ct:
                        ct["place"] = _shift_place(ct["place"], loff)
                    if "cond" in ct:
                        ct["cond"] = _shift_operand(ct["cond"], loff, owner)
                elif k == "call":
                    ct["args"] = [_shift_operand(a, loff, owner) for a in ct["args"]]
                    ct["dest"] = _shift_place(ct["dest"], loff)
                    if ct.get("t") is not None:
                        ct["t"] = ct["t"] + boff
                    if "indirect" in ct["callee"]:
                        ct["callee"] = dict(ct["callee"], indirect=_shift_operand(ct["callee"]["indirect"], loff, owner))
            nbk["term"] = ct
            blocks.append(nbk)
        blocks[bi]["term"] = {"k": "goto", "t": boff}
        changed = True
    if not changed:
        return body
    j["inlined_owner"] = body.j.get("inlined_owner", body.name)
    nb = Body(j, body.crate)
    nb.inlined = True
    return nb
