"""facts-level desugaring of iterator pipelines and closure calls.

`src.iter().map(f).filter(g)` consumed by `extend`/`collect`/`for`/`any`/`find`/... is rewritten into the explicit loop
the standard library documents for these adapters, with the closure bodies spliced in; `Fn*::call*` on a closure whose
creation site is visible is replaced by the closure body.  The rule packs then see one normal form (loop + guards +
calls) whether the source was written with `for`/`if`/`push` or as an iterator chain.

Only what is documented behaviour of core::iter is encoded:
  map(f)         item -> f(item)
  filter(p)      keeps item iff p(&item)
  filter_map(f)  keeps x iff f(item) == Some(x)
  chain(a, b)    all of a, then all of b
  cloned/copied  item -> clone of item (kept as the same term: the rules compare values)
  inspect(f)     calls f(&item), keeps item
sinks: Extend::extend / collect into Vec, {Hash,BTree}{Map,Set}; for_each; any; all; find; find_map; position;
`Iterator::next` on a pipeline (the `for` loop form).  Everything else stays an opaque call (the pipeline source).
"""
import copy

from . import mir

IT = "std::iter::Iterator::"
STAGES = {IT + "map": "map", IT + "filter": "filter", IT + "filter_map": "filter_map", IT + "chain": "chain",
          IT + "cloned": "cloned", IT + "copied": "copied", IT + "inspect": "inspect"}
SINKS = {IT + "for_each": "for_each", IT + "any": "any", IT + "all": "all", IT + "find": "find",
         IT + "find_map": "find_map", IT + "position": "position", IT + "collect": "collect",
         "std::iter::Extend::extend": "extend"}
CALLS = ("std::ops::FnMut::call_mut", "std::ops::Fn::call", "std::ops::FnOnce::call_once")
# Option combinators with a visible function argument: rewritten into the match they abbreviate
OPTS = {"std::option::Option::map": "map", "std::option::Option::and_then": "and_then", "std::option::Option::is_some_and": "is_some_and",
        "std::option::Option::is_none_or": "is_none_or", "std::option::Option::filter": "filter", "std::option::Option::map_or": "map_or",
        "std::option::Option::unwrap_or_else": "unwrap_or_else", "std::option::Option::map_or_else": "map_or_else", "std::option::Option::or_else": "or_else",
        "std::option::Option::unwrap_or_default": "unwrap_or_default", "std::option::Option::unwrap_or": "unwrap_or"}
SEQ = ("std::vec::Vec", "std::collections::VecDeque")
SETS = ("std::collections::HashSet", "std::collections::BTreeSet")
MAPS = ("std::collections::HashMap", "std::collections::BTreeMap")

UNIT = {"s": "()", "refs": 0, "tuple": []}
BOOL = {"s": "bool", "refs": 0, "prim": "bool"}
USIZE = {"s": "usize", "refs": 0, "prim": "usize"}
ISIZE = {"s": "isize", "refs": 0, "prim": "isize"}


def ref_ty(t, mut=False):
    t = t or {"s": "?"}
    return dict(t, s=("&mut " if mut else "&") + t.get("s", "?"), refs=t.get("refs", 0) + 1)


def deref_ty(t):
    t = t or {"s": "?"}
    s = t.get("s", "?")
    if s.startswith("&mut "):
        s = s[5:]
    elif s.startswith("&"):
        s = s[1:]
    return dict(t, s=s, refs=max(0, t.get("refs", 1) - 1))


def option_ty(t):
    return {"s": "std::option::Option<%s>" % (t or {}).get("s", "?"), "refs": 0, "adt": "std::option::Option", "targs": [t or {"s": "?"}]}


def const_bool(v):
    return {"const": {"ty": BOOL, "dbg": "true" if v else "false", "bool": bool(v), "scalar": 1 if v else 0}}


def const_unit():
    return {"const": {"ty": UNIT, "dbg": "()"}}


def const_usize(v):
    return {"const": {"ty": USIZE, "dbg": "%d_usize" % v, "int": v, "scalar": v}}


def P(l, ty, proj=()):
    return {"l": l, "p": list(proj), "ty": ty}


class _NoRewrite(Exception):
    pass


class Desugarer:
    def __init__(self, crate, body, pipelines=True):
        self.crate = crate
        self.pipelines = pipelines
        self.src = body
        self.j = copy.deepcopy(body.j)
        self.blocks = self.j["blocks"]
        self.locals = self.j["locals"]
        self.owner = body.j.get("inlined_owner", body.name)
        self.changed = False
        self._unreach = None
        self._index()

    # ------------------------------------------------------------ infrastructure
    def _index(self):
        d = {}
        for bi, b in enumerate(self.blocks):
            for si, st in enumerate(b["stmts"]):
                if st["k"] in ("assign", "setdiscr"):
                    d.setdefault(st["place"]["l"], []).append(("stmt", bi, si))
            t = b["term"]
            if t["k"] == "call":
                d.setdefault(t["dest"]["l"], []).append(("call", bi, None))
        self.defs = d

    def new_local(self, ty, name=None):
        self.locals.append({"ty": ty or {"s": "?"}, "name": name, "mut": True, "synthetic": True})
        return len(self.locals) - 1

    def new_block(self, stmts=None, term=None):
        self.blocks.append({"cleanup": False, "stmts": stmts or [], "term": term or {"k": "unreachable"}, "synthetic": True})
        return len(self.blocks) - 1

    def unreachable(self):
        if self._unreach is None:
            self._unreach = self.new_block()
        return self._unreach

    def assign(self, place, rv, span):
        return {"k": "assign", "place": place, "rv": rv, "span": span}

    def use(self, place, op, span):
        return self.assign(place, {"k": "use", "op": op}, span)

    def call(self, path, args, dest, target, span, self_ty=None, trait=None, desugar=None):
        c = {"path": path, "krate": "std", "local": False, "full": path, "decl_track_caller": False, "resolved": path,
             "resolved_full": path, "resolved_local": False, "resolved_krate": "std", "resolved_kind": "Item",
             "track_caller": False, "synthetic": True}
        if trait:
            c["trait"] = trait
            c["targs"] = [self_ty or {"s": "?"}]
            c["args"] = [(self_ty or {}).get("s", "?")]
        elif self_ty:
            c["impl_self"] = self_ty
        fs = dict(span or {}, exp=True, synthetic=True)
        if desugar:
            fs["desugar"] = desugar
        return {"k": "call", "callee": c, "args": args, "dest": dest, "t": target, "span": span, "fn_span": fs}

    # ------------------------------------------------------------ tracing
    def single_def(self, l):
        d = self.defs.get(l, [])
        return d[0] if len(d) == 1 else None

    def value_def(self, op):
        """follow plain moves/copies of bare locals back to the unique defining statement or call"""
        for _ in range(20):
            p = mir.op_place(op)
            if p is None or p["p"]:
                return None, op
            d = self.single_def(p["l"])
            if d is None:
                return None, op
            kind, bi, si = d
            if kind == "stmt":
                st = self.blocks[bi]["stmts"][si]
                if st["k"] == "assign" and not st["place"]["p"] and st["rv"]["k"] == "use" and mir.op_place(st["rv"]["op"]) is not None \
                        and not mir.op_place(st["rv"]["op"])["p"]:
                    op = st["rv"]["op"]
                    continue
            return d, op
        return None, op

    def resolve_fn(self, op, depth=0):
        """what a function-valued operand denotes: ("closure", body, capture operands, closure place) when the closure
        creation site is visible, ("fn", path, type) for a function item, else None"""
        c = op.get("const") if isinstance(op, dict) else None
        if c is not None:
            return ("fn", c["ty"]["fndef"], c["ty"]) if "fndef" in c.get("ty", {}) else None
        d, last = self.value_def(op)
        if d is None or d[0] != "stmt" or depth > 8:
            return None
        st = self.blocks[d[1]]["stmts"][d[2]]
        rv = st.get("rv", {})
        if rv.get("k") == "ref" and not rv["place"]["p"]:
            return self.resolve_fn({"copy": rv["place"]}, depth + 1)
        if rv.get("k") == "use" and "const" in rv["op"]:
            return self.resolve_fn(rv["op"], depth + 1)
        if rv.get("k") == "agg" and rv.get("kind") == "closure":
            cb = self.crate.bodies.get(rv.get("closure"))
            if cb is not None:
                return ("closure", cb, rv["ops"], st["place"])
        return None

    def fn_out_ty(self, f):
        if f[0] == "closure":
            return f[1].locals[0]["ty"]
        fb = self.crate.bodies.get(f[1])
        if fb is not None:
            return fb.locals[0]["ty"]
        sig = self.crate.fns.get(f[1])
        if sig and sig.get("output"):
            return sig["output"]
        s = f[2].get("s", "")
        if ") -> " in s:
            out = s.split(") -> ", 1)[1].rsplit(" {", 1)[0]
            adt = out.split("<", 1)[0]
            return {"s": out, "refs": 0, "adt": adt} if "::" in adt else {"s": out, "refs": 0}
        return {"s": "?"}

    def fn_in_ty(self, f, i, default=None):
        if f[0] == "closure":
            return f[1].locals[2 + i]["ty"] if len(f[1].locals) > 2 + i else default
        fb = self.crate.bodies.get(f[1])
        if fb is not None and len(fb.locals) > 1 + i:
            return fb.locals[1 + i]["ty"]
        return default

    def trace(self, op, used):
        """pipeline tree behind an iterator-valued operand"""
        d, last = self.value_def(op)
        if d is not None and d[0] == "stmt":
            # `find`/`any`/`position` take `&mut self`: look through the reference to the iterator value itself
            st0 = self.blocks[d[1]]["stmts"][d[2]]
            rv0 = st0.get("rv", {})
            if rv0.get("k") == "ref" and not rv0["place"]["p"] and not st0["place"]["p"]:
                u2 = []
                inner = self.trace({"copy": rv0["place"]}, u2)
                if inner[0] != "src":
                    used.extend(u2)
                    return inner
        if d is None or d[0] != "call":
            return ("src", last)
        t = self.blocks[d[1]]["term"]
        nm = mir._norm(t["callee"].get("path", ""))
        st = STAGES.get(nm)
        if st in ("map", "filter", "filter_map", "inspect"):
            f = self.resolve_fn(t["args"][1])
            if f is None:
                return ("src", last)
            used.append(d[1])
            return (st, self.trace(t["args"][0], used), f, t.get("span"))
        if st in ("cloned", "copied"):
            used.append(d[1])
            return ("cloned", self.trace(t["args"][0], used))
        if st == "chain":
            used.append(d[1])
            return ("chain", self.trace(t["args"][0], used), self.trace(t["args"][1], used))
        if nm == "std::iter::IntoIterator::into_iter":
            u2 = []
            inner = self.trace(t["args"][0], u2)
            if inner[0] != "src":
                used.extend(u2)
                used.append(d[1])
                return inner
        return ("src", last)

    def item_ty(self, node):
        k = node[0]
        if k == "src":
            ty = mir.op_place(node[1]) and mir.op_place(node[1]).get("ty") or (node[1].get("const") or {}).get("ty") or {}
            if ty.get("refs", 0) == 0 and ty.get("targs"):
                a = ty.get("adt", "")
                e = ty["targs"][0]
                if a in ("std::slice::Iter", "std::collections::vec_deque::Iter", "std::collections::hash_set::Iter", "std::collections::btree_set::Iter"):
                    return ref_ty(e)
                if a in ("std::slice::IterMut",):
                    return ref_ty(e, True)
                if a in ("std::vec::IntoIter", "std::vec::Vec", "std::vec::Drain"):
                    return e
            return None
        if k in ("map", "filter_map"):
            out = self.fn_out_ty(node[2])
            if k == "filter_map":
                return (out.get("targs") or [None])[0]
            return out
        if k in ("filter", "inspect"):
            return self.item_ty(node[1]) or deref_ty(self.fn_in_ty(node[2], 0))
        if k == "cloned":
            t = self.item_ty(node[1])
            return deref_ty(t) if t else None
        if k == "chain":
            return self.item_ty(node[1]) or self.item_ty(node[2])
        return None

    # ------------------------------------------------------------ splicing a closure body
    def splice(self, cb, args, dest, ret_target, span, captures=None):
        """append cb's blocks with parameters bound to `args`; returns the entry block.  `captures`: operands the closure
        was created with; reads of the environment are replaced by them"""
        cj = cb.j
        loff = len(self.locals)
        boff = len(self.blocks)
        self.locals.extend(copy.deepcopy(cj["locals"]))
        owner = cj.get("inlined_owner", cb.name)
        by_ref = cj["locals"][1]["ty"].get("refs", 0) > 0 if len(cj["locals"]) > 1 else False

        def map_place(p):
            proj = p["p"]
            if captures is not None and p["l"] == 1:
                k = 1 if by_ref else 0
                if len(proj) > k and (not by_ref or proj[0] == "deref") and isinstance(proj[k], dict) and "i" in proj[k] and proj[k]["i"] < len(captures):
                    cp = mir.op_place(captures[proj[k]["i"]])
                    if cp is not None:
                        rest = [xf(e) for e in proj[k + 1:]]
                        return {"l": cp["l"], "p": list(cp["p"]) + rest, "ty": p.get("ty")}
            return {"l": p["l"] + loff, "p": [xf(e) for e in proj], "ty": p.get("ty")}

        def xf(x):
            if isinstance(x, dict):
                if "l" in x and "p" in x and isinstance(x["p"], list):
                    return map_place(x)
                if "idx" in x and isinstance(x["idx"], int):
                    return dict(x, idx=x["idx"] + loff)
                out = {}
                for k2, v in x.items():
                    if k2 in ("ty", "span", "fn_span"):
                        out[k2] = v
                    elif k2 == "const" and isinstance(v, dict):
                        out[k2] = dict(v, promoted_owner=owner) if "promoted" in v and "promoted_owner" not in v else v
                    elif k2 == "callee":
                        out[k2] = dict(v, indirect=xf(v["indirect"])) if "indirect" in v else v
                    elif k2 in ("t", "otherwise") and isinstance(v, int):
                        out[k2] = v + boff
                    elif k2 == "targets":
                        out[k2] = [[a, b + boff] for a, b in v]
                    else:
                        out[k2] = xf(v)
                return out
            if isinstance(x, list):
                return [xf(e) for e in x]
            return x

        pre = []
        for i, a in enumerate(args):
            if 1 + i < len(cj["locals"]):
                pre.append(self.use(P(loff + 1 + i, cj["locals"][1 + i]["ty"]), a, span))
        for cbk in cj["blocks"]:
            nb = {"cleanup": cbk["cleanup"], "stmts": [xf(s) for s in cbk["stmts"]], "term": None, "synthetic": True}
            t = cbk["term"]
            if t["k"] == "return":
                if ret_target is None:
                    nb["term"] = {"k": "unreachable"}
                else:
                    nb["stmts"].append(self.use(dest, {"move": P(loff, cj["locals"][0]["ty"])}, span))
                    nb["term"] = {"k": "goto", "t": ret_target}
            else:
                nb["term"] = xf(t)
            self.blocks.append(nb)
        self.blocks[boff]["stmts"][0:0] = pre
        return boff

    def call_closure(self, f, item_ops, dest, target, span):
        """blocks computing dest = f(item_ops...); returns entry block"""
        if f[0] == "fn":
            path = f[1]
            if path == "std::convert::identity" and len(item_ops) == 1:
                return self.new_block([self.use(dest, item_ops[0], span)], {"k": "goto", "t": target})
            adt, _, var = path.rpartition("::")
            a = self.crate.adts.get(adt)
            if a is not None and a.get("kind") == "Enum" and any(v["name"] == var for v in a["variants"]):
                v = [v for v in a["variants"] if v["name"] == var][0]
                return self.new_block([self.assign(dest, {"k": "agg", "kind": "adt", "adt": adt, "variant": var, "ops": item_ops,
                                                          "fields": [fl["name"] for fl in v["fields"]][:len(item_ops)]}, span)], {"k": "goto", "t": target})
            fb = self.crate.bodies.get(path)
            t = self.call(path, item_ops, dest, target, span)
            c = t["callee"]
            del c["synthetic"]
            c["devirtualised"] = True
            if fb is not None:
                c.update({"krate": self.crate.name, "local": True, "resolved_local": True, "resolved_krate": self.crate.name})
                sig = self.crate.fns.get(path) or {}
                if sig.get("impl_self"):
                    c["impl_self"] = sig["impl_self"]
            else:
                c["krate"] = c["resolved_krate"] = path.split("::", 1)[0]
            return self.new_block([], t)
        _, cb, caps, cplace = f
        envty = cb.locals[1]["ty"]
        stm = []
        if envty.get("refs", 0) > 0:
            r = self.new_local(envty)
            stm.append(self.assign(P(r, envty), {"k": "ref", "mut": envty.get("s", "").startswith("&mut"), "place": cplace}, span))
            env = {"move": P(r, envty)}
        else:
            env = {"move": cplace}
        entry = self.splice(cb, [env] + item_ops, dest, target, span, captures=caps)
        self.blocks[entry]["stmts"][0:0] = stm
        return entry

    # ------------------------------------------------------------ loop generation
    def gen(self, node, body_gen, exit_target, span):
        """emit the loop(s) for pipeline `node`.  body_gen(item operand, item type, continue block) -> entry block of
        the per-item code.  Returns the entry block of the emitted code."""
        k = node[0]
        if k == "src":
            sop = node[1]
            sp = mir.op_place(sop)
            ity = self.item_ty(node)
            if sp is None:
                raise _NoRewrite()
            sty = sp.get("ty") or {}
            r = self.new_local(ref_ty(sty, True))
            n = self.new_local(option_ty(ity))
            dsc = self.new_local(ISIZE)
            head = self.new_block()
            h2 = self.new_block()
            item = {"copy": P(n, ity, [{"dc": "Some"}, {"i": 0, "adt": "std::option::Option", "variant": "Some", "f": "0", "ty": (ity or {}).get("s", "?")}])}
            body = body_gen(item, ity, head)
            self.blocks[head]["stmts"] = [self.assign(P(r, ref_ty(sty, True)), {"k": "ref", "mut": True, "place": P(sp["l"], sty, sp["p"])}, span)]
            self.blocks[head]["term"] = self.call(IT + "next", [{"move": P(r, ref_ty(sty, True))}], P(n, option_ty(ity)), h2, span, self_ty=sty, trait="std::iter::Iterator", desugar="ForLoop")
            self.blocks[h2]["stmts"] = [self.assign(P(dsc, ISIZE), {"k": "discr", "place": P(n, option_ty(ity)), "enum": "std::option::Option", "variants": {"0": "None", "1": "Some"}}, span)]
            self.blocks[h2]["term"] = {"k": "switch", "op": {"move": P(dsc, ISIZE)}, "targets": [["0", exit_target], ["1", body]], "otherwise": self.unreachable()}
            return head
        if k == "cloned":
            return self.gen(node[1], lambda it, ty, cont: self._cloned(it, ty, cont, body_gen, span), exit_target, span)
        if k == "chain":
            second = self.gen(node[2], body_gen, exit_target, span)
            return self.gen(node[1], body_gen, second, span)
        f = node[2]
        fspan = node[3] or span
        if k == "map":
            def g(it, ty, cont):
                oty = self.fn_out_ty(f)
                o = self.new_local(oty)
                nxt = body_gen({"move": P(o, oty)}, oty, cont)
                return self.call_closure(f, [it], P(o, oty), nxt, fspan)
            return self.gen(node[1], g, exit_target, span)
        if k in ("filter", "inspect"):
            def g(it, ty, cont):
                oty = self.fn_out_ty(f)
                o = self.new_local(oty)
                v = self.new_local(ty)
                rty = self.fn_in_ty(f, 0, ref_ty(ty))
                rr = self.new_local(rty)
                nxt = body_gen({"move": P(v, ty)}, ty, cont)
                if k == "filter":
                    sw = self.new_block([], {"k": "switch", "op": {"move": P(o, oty)}, "targets": [["0", cont]], "otherwise": nxt})
                else:
                    sw = nxt
                e = self.call_closure(f, [{"move": P(rr, rty)}], P(o, oty), sw, fspan)
                return self.new_block([self.use(P(v, ty), it, fspan), self.assign(P(rr, rty), {"k": "ref", "mut": False, "place": P(v, ty)}, fspan)], {"k": "goto", "t": e})
            return self.gen(node[1], g, exit_target, span)
        if k == "filter_map":
            def g(it, ty, cont):
                oty = self.fn_out_ty(f)
                ity = (oty.get("targs") or [None])[0]
                o = self.new_local(oty)
                dsc = self.new_local(ISIZE)
                item = {"move": P(o, ity, [{"dc": "Some"}, {"i": 0, "adt": "std::option::Option", "variant": "Some", "f": "0", "ty": (ity or {}).get("s", "?")}])}
                nxt = body_gen(item, ity, cont)
                sw = self.new_block([self.assign(P(dsc, ISIZE), {"k": "discr", "place": P(o, oty), "enum": "std::option::Option", "variants": {"0": "None", "1": "Some"}}, fspan)],
                                    {"k": "switch", "op": {"move": P(dsc, ISIZE)}, "targets": [["0", cont], ["1", nxt]], "otherwise": self.unreachable()})
                return self.call_closure(f, [it], P(o, oty), sw, fspan)
            return self.gen(node[1], g, exit_target, span)
        raise _NoRewrite()

    def _cloned(self, it, ty, cont, body_gen, span):
        """cloned()/copied(): item -> *item"""
        p = mir.op_place(it)
        if p is None:
            raise _NoRewrite()
        dty = deref_ty(ty) if ty else None
        return body_gen({"copy": P(p["l"], dty, list(p["p"]) + ["deref"])}, dty, cont)

    # ------------------------------------------------------------ sinks
    def rewrite_sink(self, bi, kind):
        blk = self.blocks[bi]
        t = blk["term"]
        span = t.get("span") or {}
        dest, target = t["dest"], t.get("t")
        if target is None:
            return False
        used = []
        if kind == "extend":
            node = self.trace(t["args"][1], used)
            coll = t["args"][0]
            cty = deref_ty(mir.op_place(coll).get("ty")) if mir.op_place(coll) else {}
        else:
            node = self.trace(t["args"][0], used)
        nblocks, nlocals = len(self.blocks), len(self.locals)
        saved_unreach = self._unreach
        try:
            stm_pre = []
            if kind == "collect" and (dest.get("ty") or {}).get("adt") == "std::result::Result" and not (dest.get("ty") or {}).get("refs", 0):
                # collect::<Result<C, E>>(): stop at the first Err item and return it, otherwise Ok(collection of the payloads)
                rty_ = dest["ty"]
                targs = rty_.get("targs") or []
                if dest["p"] or len(targs) != 2 or targs[0].get("adt") not in SEQ + SETS or targs[0].get("refs", 0):
                    raise _NoRewrite()
                cty = targs[0]
                adt = cty["adt"]
                ety = targs[1]
                acc = self.new_local(cty)
                r = self.new_local(ref_ty(cty, True))
                res_s = rty_.get("s", "?")
                exit_b = self.new_block([self.assign(dest, {"k": "agg", "kind": "adt", "adt": "std::result::Result", "variant": "Ok", "ops": [{"move": P(acc, cty)}], "fields": ["0"]}, span)],
                                        {"k": "goto", "t": target})

                def body(it, ty, cont):
                    v = self.new_local(ty)
                    dsc = self.new_local(ISIZE)
                    u = self.new_local(UNIT if adt in SEQ else BOOL)
                    pty = ((ty or {}).get("targs") or [None, None])
                    okp = {"move": P(v, ty, [{"dc": "Ok"}, {"i": 0, "adt": "std::result::Result", "variant": "Ok", "f": "0", "ty": (pty[0] or {}).get("s", "?")}])}
                    erp = {"move": P(v, ty, [{"dc": "Err"}, {"i": 0, "adt": "std::result::Result", "variant": "Err", "f": "0", "ty": (pty[1] or {}).get("s", "?")}])}
                    if adt in SEQ:
                        m = "push" if adt == "std::vec::Vec" else "push_back"
                        okb = self.new_block([], self.call("%s::<T, A>::%s" % (adt, m), [{"copy": P(r, ref_ty(cty, True))}, okp], P(u, UNIT), cont, span, self_ty=cty))
                    else:
                        okb = self.new_block([], self.call("%s::<T, S>::insert" % adt, [{"copy": P(r, ref_ty(cty, True))}, okp], P(u, BOOL), cont, span, self_ty=cty))
                    erb = self.new_block([self.assign(dest, {"k": "agg", "kind": "adt", "adt": "std::result::Result", "variant": "Err", "ops": [erp], "fields": ["0"]}, span)],
                                         {"k": "goto", "t": target})
                    return self.new_block([self.use(P(v, ty), it, span),
                                           self.assign(P(dsc, ISIZE), {"k": "discr", "place": P(v, ty), "enum": "std::result::Result", "variants": {"0": "Ok", "1": "Err"}}, span)],
                                          {"k": "switch", "op": {"move": P(dsc, ISIZE)}, "targets": [["0", okb], ["1", erb]], "otherwise": self.unreachable()})
                entry = self.gen(node, body, exit_b, span)
                e2 = self.new_block([self.assign(P(r, ref_ty(cty, True)), {"k": "ref", "mut": True, "place": P(acc, cty)}, span)], {"k": "goto", "t": entry})
                entry = self.new_block([], self.call("%s::new" % adt, [], P(acc, cty), e2, span, self_ty=cty))
            elif kind in ("extend", "collect"):
                if kind == "collect":
                    cty = dest.get("ty") or {}
                    if dest["p"]:
                        raise _NoRewrite()
                    r = self.new_local(ref_ty(cty, True))
                    coll = {"copy": P(r, ref_ty(cty, True))}
                adt = cty.get("adt")
                if adt not in SEQ + SETS + MAPS or cty.get("refs", 0):
                    raise _NoRewrite()
                exit_b = self.new_block([] if kind == "collect" else [self.use(dest, const_unit(), span)], {"k": "goto", "t": target})

                def body(it, ty, cont):
                    u = self.new_local(UNIT)
                    cp = mir.op_place(coll)
                    c_op = {"copy": cp} if cp is not None else coll
                    if adt in SEQ:
                        m = "push" if adt == "std::vec::Vec" else "push_back"
                        return self.new_block([], self.call("%s::<T, A>::%s" % (adt, m), [c_op, it], P(u, UNIT), cont, span, self_ty=cty))
                    if adt in SETS:
                        return self.new_block([], self.call("%s::<T, S>::insert" % adt, [c_op, it], P(u, BOOL), cont, span, self_ty=cty))
                    ip = mir.op_place(it)
                    if ip is None:
                        raise _NoRewrite()
                    kv = [{"move": P(ip["l"], None, list(ip["p"]) + [{"i": i, "tuple": True}])} for i in (0, 1)]
                    return self.new_block([], self.call("%s::<K, V, S>::insert" % adt, [c_op] + kv, P(u, {"s": "std::option::Option<?>", "adt": "std::option::Option"}), cont, span, self_ty=cty))
                entry = self.gen(node, body, exit_b, span)
                if kind == "collect":
                    e2 = self.new_block([self.assign(P(r, ref_ty(cty, True)), {"k": "ref", "mut": True, "place": dest}, span)], {"k": "goto", "t": entry})
                    entry = self.new_block([], self.call("%s::new" % adt, [], dest, e2, span, self_ty=cty))
            elif kind == "for_each":
                f = self.resolve_fn(t["args"][1])
                if f is None:
                    raise _NoRewrite()
                exit_b = self.new_block([self.use(dest, const_unit(), span)], {"k": "goto", "t": target})

                def body(it, ty, cont):
                    u = self.new_local(UNIT)
                    return self.call_closure(f, [it], P(u, UNIT), cont, span)
                entry = self.gen(node, body, exit_b, span)
            elif kind in ("any", "all", "find", "position"):
                f = self.resolve_fn(t["args"][1])
                if f is None:
                    raise _NoRewrite()
                if kind in ("any", "all"):
                    exit_b = self.new_block([self.use(dest, const_bool(kind == "all"), span)], {"k": "goto", "t": target})
                else:
                    exit_b = self.new_block([self.assign(dest, {"k": "agg", "kind": "adt", "adt": "std::option::Option", "variant": "None", "ops": [], "fields": []}, span)], {"k": "goto", "t": target})
                ctr = self.new_local(USIZE) if kind == "position" else None

                def body(it, ty, cont):
                    o = self.new_local(BOOL)
                    if kind == "find":
                        v = self.new_local(ty)
                        rty = self.fn_in_ty(f, 0, ref_ty(ty))
                        rr = self.new_local(rty)
                        hit = self.new_block([self.assign(dest, {"k": "agg", "kind": "adt", "adt": "std::option::Option", "variant": "Some", "ops": [{"move": P(v, ty)}], "fields": ["0"]}, span)], {"k": "goto", "t": target})
                        sw = self.new_block([], {"k": "switch", "op": {"move": P(o, BOOL)}, "targets": [["0", cont]], "otherwise": hit})
                        e = self.call_closure(f, [{"move": P(rr, rty)}], P(o, BOOL), sw, span)
                        return self.new_block([self.use(P(v, ty), it, span), self.assign(P(rr, rty), {"k": "ref", "mut": False, "place": P(v, ty)}, span)], {"k": "goto", "t": e})
                    if kind == "position":
                        hit = self.new_block([self.assign(dest, {"k": "agg", "kind": "adt", "adt": "std::option::Option", "variant": "Some", "ops": [{"copy": P(ctr, USIZE)}], "fields": ["0"]}, span)], {"k": "goto", "t": target})
                        miss = self.new_block([self.assign(P(ctr, USIZE), {"k": "binop", "op": "Add", "l": {"copy": P(ctr, USIZE)}, "r": const_usize(1)}, span)], {"k": "goto", "t": cont})
                        sw = self.new_block([], {"k": "switch", "op": {"move": P(o, BOOL)}, "targets": [["0", miss]], "otherwise": hit})
                    else:
                        hit = self.new_block([self.use(dest, const_bool(kind == "any"), span)], {"k": "goto", "t": target})
                        if kind == "any":
                            sw = self.new_block([], {"k": "switch", "op": {"move": P(o, BOOL)}, "targets": [["0", cont]], "otherwise": hit})
                        else:
                            sw = self.new_block([], {"k": "switch", "op": {"move": P(o, BOOL)}, "targets": [["0", hit]], "otherwise": cont})
                    return self.call_closure(f, [it], P(o, BOOL), sw, span)
                entry = self.gen(node, body, exit_b, span)
                if kind == "position":
                    entry = self.new_block([self.use(P(ctr, USIZE), const_usize(0), span)], {"k": "goto", "t": entry})
            elif kind == "find_map":
                f = self.resolve_fn(t["args"][1])
                if f is None:
                    raise _NoRewrite()
                exit_b = self.new_block([self.assign(dest, {"k": "agg", "kind": "adt", "adt": "std::option::Option", "variant": "None", "ops": [], "fields": []}, span)], {"k": "goto", "t": target})
                oty = self.fn_out_ty(f)

                def body(it, ty, cont):
                    o = self.new_local(oty)
                    dsc = self.new_local(ISIZE)
                    hit = self.new_block([self.use(dest, {"move": P(o, oty)}, span)], {"k": "goto", "t": target})
                    sw = self.new_block([self.assign(P(dsc, ISIZE), {"k": "discr", "place": P(o, oty), "enum": "std::option::Option", "variants": {"0": "None", "1": "Some"}}, span)],
                                        {"k": "switch", "op": {"move": P(dsc, ISIZE)}, "targets": [["0", cont], ["1", hit]], "otherwise": self.unreachable()})
                    return self.call_closure(f, [it], P(o, oty), sw, span)
                entry = self.gen(node, body, exit_b, span)
            else:
                raise _NoRewrite()
        except _NoRewrite:
            del self.blocks[nblocks:]
            del self.locals[nlocals:]
            self._unreach = saved_unreach
            return False
        blk["term"] = {"k": "goto", "t": entry, "desugared": t["callee"].get("path")}
        self.retire(used)
        return True

    def retire(self, used):
        for b in used:
            t = self.blocks[b]["term"]
            if t["k"] == "call" and t.get("t") is not None:
                self.blocks[b]["term"] = {"k": "goto", "t": t["t"], "desugared": t["callee"].get("path")}
        self.changed = True
        self._index()

    def rewrite_next(self, bi):
        """`for x in <pipeline>`: Iterator::next on an adapter chain"""
        blk = self.blocks[bi]
        t = blk["term"]
        span = t.get("span") or {}
        dest, target = t["dest"], t.get("t")
        if target is None or dest["p"]:
            return False
        p = mir.op_place(t["args"][0])
        if p is None or p["p"]:
            return False
        # &mut iter temp -> iter local
        cur = {"copy": p}
        itl = None
        for _ in range(6):
            d, last = self.value_def(cur)
            if d is None or d[0] != "stmt":
                break
            st = self.blocks[d[1]]["stmts"][d[2]]
            rv = st.get("rv", {})
            if rv.get("k") == "ref":
                pl = rv["place"]
                if pl["p"] == ["deref"]:
                    cur = {"copy": P(pl["l"], None)}
                    continue
                if not pl["p"]:
                    itl = pl
                break
            break
        if itl is None:
            return False
        used = []
        node = self.trace({"copy": itl}, used)
        if node[0] == "src":
            return False
        nblocks, nlocals = len(self.blocks), len(self.locals)
        saved_unreach = self._unreach
        # standard continuation: discr(dest); switch [0: none, 1: some]
        some_t = none_t = target
        tb = self.blocks[target]
        if len(tb["stmts"]) == 1 and tb["stmts"][0].get("rv", {}).get("k") == "discr" and tb["stmts"][0]["rv"]["place"]["l"] == dest["l"] \
                and tb["term"]["k"] == "switch":
            tg = dict((str(a), b) for a, b in tb["term"]["targets"])
            if "0" in tg and "1" in tg:
                none_t, some_t = tg["0"], tg["1"]
        try:
            if none_t == target:
                exit_b = self.new_block([self.assign(dest, {"k": "agg", "kind": "adt", "adt": "std::option::Option", "variant": "None", "ops": [], "fields": []}, span)], {"k": "goto", "t": target})
            else:
                exit_b = none_t

            def body(it, ty, cont):
                return self.new_block([self.assign(dest, {"k": "agg", "kind": "adt", "adt": "std::option::Option", "variant": "Some", "ops": [it], "fields": ["0"]}, span)], {"k": "goto", "t": some_t})
            entry = self.gen(node, body, exit_b, span)
        except _NoRewrite:
            del self.blocks[nblocks:]
            del self.locals[nlocals:]
            self._unreach = saved_unreach
            return False
        blk["term"] = {"k": "goto", "t": entry, "desugared": t["callee"].get("path")}
        self.retire(used)
        return True

    def rewrite_call(self, bi):
        """<F as Fn*>::call*(f, (args,)) with a visible closure creation site"""
        blk = self.blocks[bi]
        t = blk["term"]
        if t.get("t") is None or len(t["args"]) != 2:
            return False
        f = self.resolve_fn(t["args"][0])
        if f is None:
            return False
        tp = mir.op_place(t["args"][1])
        if f[0] == "closure":
            n_params = f[1].arg_count - 1
        else:
            tys = (tp or {}).get("ty") or {}
            s_ = tys.get("s", "")
            n_params = len(tys["tuple"]) if "tuple" in tys else (0 if s_ == "()" else s_.count(",") + (0 if s_.endswith(",)") else 1))
            fb = self.crate.bodies.get(f[1])
            if fb is not None:
                n_params = fb.arg_count
        if tp is None and n_params:
            return False
        span = t.get("span") or {}
        ops = []
        for i in range(n_params):
            ty = self.fn_in_ty(f, i, {"s": "?"})
            ops.append({"move": P(tp["l"], ty, list(tp["p"]) + [{"i": i, "tuple": True, "ty": (ty or {}).get("s")}])})
        entry = self.call_closure(f, ops, t["dest"], t["t"], span)
        blk["term"] = {"k": "goto", "t": entry, "desugared": f[1].name if f[0] == "closure" else f[1]}
        self.changed = True
        self._index()
        return True

    def rewrite_option(self, bi, kind):
        """opt.map(f) == match opt { Some(x) => Some(f(x)), None => None } and its relatives"""
        blk = self.blocks[bi]
        t = blk["term"]
        span = t.get("span") or {}
        dest, target = t["dest"], t.get("t")
        if target is None or not t["args"]:
            return False
        op = mir.op_place(t["args"][0])
        if op is None:
            return False
        oty = op.get("ty") or {}
        inner = (oty.get("targs") or [None])[0]
        if kind in ("unwrap_or_default", "unwrap_or"):
            # no function argument: Some(x) => x, None => the default (an explicit `Default::default()` call / the given value)
            nblocks, nlocals, saved = len(self.blocks), len(self.locals), self._unreach
            payload = {"move": P(op["l"], inner, list(op["p"]) + [{"dc": "Some"}, {"i": 0, "adt": "std::option::Option", "variant": "Some", "f": "0", "ty": (inner or {}).get("s", "?")}])}
            done = self.new_block([], {"k": "goto", "t": target})
            some_b = self.new_block([self.use(dest, payload, span)], {"k": "goto", "t": done})
            if kind == "unwrap_or":
                if len(t["args"]) < 2:
                    return False
                none_b = self.new_block([self.use(dest, t["args"][1], span)], {"k": "goto", "t": done})
            else:
                none_b = self.new_block([], self.call("std::default::Default::default", [], dest, done, span, self_ty=inner, trait="std::default::Default"))
            dsc = self.new_local(ISIZE)
            entry = self.new_block([self.assign(P(dsc, ISIZE), {"k": "discr", "place": P(op["l"], oty, op["p"]), "enum": "std::option::Option", "variants": {"0": "None", "1": "Some"}}, span)],
                                   {"k": "switch", "op": {"move": P(dsc, ISIZE)}, "targets": [["0", none_b], ["1", some_b]], "otherwise": self.unreachable()})
            blk["term"] = {"k": "goto", "t": entry, "desugared": t["callee"].get("path")}
            self.changed = True
            self._index()
            return True
        fi = {"map": 1, "and_then": 1, "is_some_and": 1, "is_none_or": 1, "filter": 1, "map_or": 2, "unwrap_or_else": 1, "map_or_else": 2, "or_else": 1}[kind]
        if len(t["args"]) <= fi:
            return False
        f = self.resolve_fn(t["args"][fi])
        g = self.resolve_fn(t["args"][1]) if kind == "map_or_else" else None
        if f is None or (kind == "map_or_else" and g is None):
            return False
        nblocks, nlocals, saved = len(self.blocks), len(self.locals), self._unreach
        try:
            payload = {"move": P(op["l"], inner, list(op["p"]) + [{"dc": "Some"}, {"i": 0, "adt": "std::option::Option", "variant": "Some", "f": "0", "ty": (inner or {}).get("s", "?")}])}
            dty = dest.get("ty") or {}

            def some_of(o):
                return {"k": "agg", "kind": "adt", "adt": "std::option::Option", "variant": "Some", "ops": [o], "fields": ["0"]}
            none_rv = {"k": "agg", "kind": "adt", "adt": "std::option::Option", "variant": "None", "ops": [], "fields": []}
            done = self.new_block([], {"k": "goto", "t": target})
            if kind == "map":
                rty = self.fn_out_ty(f)
                y = self.new_local(rty)
                wrap = self.new_block([self.assign(dest, some_of({"move": P(y, rty)}), span)], {"k": "goto", "t": done})
                some_b = self.call_closure(f, [payload], P(y, rty), wrap, span)
                none_b = self.new_block([self.assign(dest, none_rv, span)], {"k": "goto", "t": done})
            elif kind in ("and_then",):
                some_b = self.call_closure(f, [payload], dest, done, span)
                none_b = self.new_block([self.assign(dest, none_rv, span)], {"k": "goto", "t": done})
            elif kind in ("is_some_and", "is_none_or"):
                some_b = self.call_closure(f, [payload], dest, done, span)
                none_b = self.new_block([self.use(dest, const_bool(kind == "is_none_or"), span)], {"k": "goto", "t": done})
            elif kind == "filter":
                v = self.new_local(inner)
                rty = self.fn_in_ty(f, 0, ref_ty(inner))
                rr = self.new_local(rty)
                o = self.new_local(BOOL)
                keep = self.new_block([self.assign(dest, some_of({"move": P(v, inner)}), span)], {"k": "goto", "t": done})
                none_b = self.new_block([self.assign(dest, none_rv, span)], {"k": "goto", "t": done})
                sw = self.new_block([], {"k": "switch", "op": {"move": P(o, BOOL)}, "targets": [["0", none_b]], "otherwise": keep})
                e = self.call_closure(f, [{"move": P(rr, rty)}], P(o, BOOL), sw, span)
                some_b = self.new_block([self.use(P(v, inner), payload, span), self.assign(P(rr, rty), {"k": "ref", "mut": False, "place": P(v, inner)}, span)], {"k": "goto", "t": e})
            elif kind == "map_or":
                some_b = self.call_closure(f, [payload], dest, done, span)
                none_b = self.new_block([self.use(dest, t["args"][1], span)], {"k": "goto", "t": done})
            elif kind == "map_or_else":
                some_b = self.call_closure(f, [payload], dest, done, span)
                none_b = self.call_closure(g, [], dest, done, span)
            elif kind == "unwrap_or_else":
                some_b = self.new_block([self.use(dest, payload, span)], {"k": "goto", "t": done})
                none_b = self.call_closure(f, [], dest, done, span)
            elif kind == "or_else":
                some_b = self.new_block([self.use(dest, t["args"][0], span)], {"k": "goto", "t": done})
                none_b = self.call_closure(f, [], dest, done, span)
            else:
                raise _NoRewrite()
            dsc = self.new_local(ISIZE)
            entry = self.new_block([self.assign(P(dsc, ISIZE), {"k": "discr", "place": P(op["l"], oty, op["p"]), "enum": "std::option::Option", "variants": {"0": "None", "1": "Some"}}, span)],
                                   {"k": "switch", "op": {"move": P(dsc, ISIZE)}, "targets": [["0", none_b], ["1", some_b]], "otherwise": self.unreachable()})
        except _NoRewrite:
            del self.blocks[nblocks:]
            del self.locals[nlocals:]
            self._unreach = saved
            return False
        blk["term"] = {"k": "goto", "t": entry, "desugared": t["callee"].get("path")}
        self.changed = True
        self._index()
        return True

    def thread_jumps(self, first_new):
        """a synthetic block that ends by building a known enum variant and then reaches, through plain moves, a
        switch on that value's discriminant jumps to the selected target directly (tail duplication)"""
        for bi in range(first_new, len(self.blocks)):
            blk = self.blocks[bi]
            if blk["term"]["k"] != "goto" or not blk["stmts"]:
                continue
            facts = {}
            for st in blk["stmts"]:
                if st["k"] == "assign" and not st["place"]["p"]:
                    rv = st["rv"]
                    if rv["k"] == "agg" and rv.get("kind") == "adt" and rv.get("variant"):
                        facts[st["place"]["l"]] = rv["variant"]
                    else:
                        facts.pop(st["place"]["l"], None)
            if not facts:
                continue
            path, cur, discr, sel = [], blk["term"]["t"], {}, None
            for _ in range(5):
                b2 = self.blocks[cur]
                if b2["cleanup"]:
                    break
                for st in b2["stmts"]:
                    if st["k"] != "assign" or st["place"]["p"]:
                        continue
                    rv, d = st["rv"], st["place"]["l"]
                    facts.pop(d, None)
                    discr.pop(d, None)
                    src = mir.op_place(rv["op"]) if rv["k"] == "use" else None
                    if src is not None and not src["p"] and src["l"] in facts:
                        facts[d] = facts[src["l"]]
                    elif rv["k"] == "discr" and not rv["place"]["p"] and rv["place"]["l"] in facts:
                        inv = {v: k for k, v in (rv.get("variants") or {}).items()}
                        if facts[rv["place"]["l"]] in inv:
                            discr[d] = inv[facts[rv["place"]["l"]]]
                path.append(cur)
                t2 = b2["term"]
                if t2["k"] == "goto":
                    cur = t2["t"]
                    continue
                if t2["k"] == "switch":
                    sp = mir.op_place(t2["op"])
                    if sp is not None and not sp["p"] and sp["l"] in discr:
                        tg = dict((str(a), b) for a, b in t2["targets"])
                        sel = tg.get(str(discr[sp["l"]]), t2["otherwise"])
                break
            if sel is None:
                continue
            nxt = sel
            for pb in reversed(path):
                nxt = self.new_block(copy.deepcopy(self.blocks[pb]["stmts"]), {"k": "goto", "t": nxt})
            blk["term"] = dict(blk["term"], t=nxt)

    def run(self):
        first_new = len(self.blocks)
        self._run()
        if self.changed:
            self.thread_jumps(first_new)
        return self.changed

    def _run(self):
        for _round in range(4):
            progress = False
            for bi in range(len(self.blocks)):
                blk = self.blocks[bi]
                t = blk["term"]
                if t["k"] != "call" or blk["cleanup"] or t["callee"].get("synthetic"):
                    continue
                nm = mir._norm(t["callee"].get("path", ""))
                if nm in SINKS and self.pipelines:
                    progress |= self.rewrite_sink(bi, SINKS[nm])
                elif nm == IT + "next" and self.pipelines:
                    progress |= self.rewrite_next(bi)
                elif nm in CALLS:
                    progress |= self.rewrite_call(bi)
                elif nm in OPTS:
                    progress |= self.rewrite_option(bi, OPTS[nm])
            if not progress:
                break
        return self.changed


def desugar(crate, body, pipelines=True):
    """Body with iterator pipelines and visible closure calls made explicit (the same Body if there are none);
    pipelines=False rewrites only Option combinators and closure calls and leaves iterator chains as calls"""
    attr = "_desugared" if pipelines else "_desugared_calls"
    cached = getattr(body, attr, None)
    if cached is not None:
        return cached
    d = Desugarer(crate, body, pipelines)
    if not d.run():
        setattr(body, attr, body)
        return body
    d.j["inlined_owner"] = d.owner
    nb = mir.Body(d.j, body.crate)
    nb.inlined = True
    nb.desugared = True
    setattr(nb, attr, nb)
    setattr(body, attr, nb)
    return nb
