"""C09 - field order follows the document, or the XML name when sorting is requested (static part)."""
from .. import mir
from ..mir import strip, term_of, term_s
from . import c15, renderer
from .common import arg_ty, cname, is_mut_ref, method, norm, self_ty

EXPLANATION = (
    "A6 model of the renderer (the single function with an &Options parameter that appends to String accumulators): "
    "(R9.1) emission order by dominance: header, then the attribute loop, then the text block, then the children loop, then the "
    "closing brace, then the child-struct accumulator; child structs are appended inside the children loop in iteration order "
    "(pre-order). (R9.2) the loops run over clones of self.attributes / self.children; children are sorted by `position` in the "
    "Unsorted alternative and by `name` in the XmlName alternative; attributes are sorted (by their name) only in the XmlName "
    "alternative and not otherwise reordered. (R9.3) stored attribute order is first appearance: Element::new keeps the input "
    "order, merge_attr = merge(self.attributes, new) with the merge's order rules (C15 M1/M2/M4). (R9.4) `position` is None at "
    "construction and written in exactly one place: Some(children.len()) guarded by is_none(), before the push into the same "
    "vector. NOT decided: uniqueness of sort keys for hand-built trees (C16), that sort_unstable_by_key orders correctly (std).")


def run(ctx):
    r = ctx.run
    r.explanation = EXPLANATION
    lib = ctx.lib
    R = renderer.Renderer(lib)
    r.ob("A6.renderer-model", "library", R.ok, "renderer = %s; accumulators, attribute loop, text test and children loop recognised" % R.body.name if R.ok
         else "renderer shape not recognised: %s" % "; ".join(R.problems), key="A6.model")
    if R.ok:
        order_rules(r, R)
        sort_rules(r, R)
    stored_order_rules(r, lib)
    position_rules(r, lib)
    # document order of attributes starts in the parser: the collected list is handed on exactly as collected (PM12, tagged C09)
    from . import pm
    PR = pm.Roles(lib)
    r.ob("PM.roles", "library", PR.ok, "tag parser = %s" % PR.tp.name if PR.ok else "parser mechanism not recognised: %s" % "; ".join(PR.problems), key="PM.roles")
    if PR.ok:
        pm.pm6_multiple(r, PR)
        pm.pm12_attributes(r, PR)
    r.trust("sort_unstable_by_key orders by the key; Vec::push appends; iterators yield front to back")
    r.assume("children of one parent have distinct positions and names (parser-built trees; hand-built trees are C16's subject)")


def order_rules(r, R):
    b = R.body
    fn = b.name
    em = R.emissions
    header = [e for e in em if e.kind == "header"]
    closer = [e for e in em if e.kind == "closer"]
    append = [e for e in em if e.kind == "append-acc" and e.acc == R.main]
    childs = [e for e in em if e.kind == "child-structs"]
    ok = len(header) == 1 and len(closer) == 1 and len(append) == 1 and len(childs) == 1
    r.ob("R9.1.emission-inventory", fn, ok, "one header, one closing brace, one child-struct append, one recursive rendering per child (found %d/%d/%d/%d); %d emission sites" % (
        len(header), len(closer), len(append), len(childs), len(em)), site=mir.line_of(b.span), key="R9.1|inventory")
    if not ok:
        return
    h, c, a, ch = header[0], closer[0], append[0], childs[0]
    al, cl, tx = R.attr_loop, R.child_loop, R.text_switch
    seq = [("struct header", h.site.bb), ("attribute loop", al["header"]), ("text block", tx["switch_bb"]), ("children loop", cl["header"]),
           ("closing brace", c.site.bb), ("child structs appended", a.site.bb)]
    for (n1, b1), (n2, b2) in zip(seq, seq[1:]):
        ok = b.dominates(b1, b2) and b1 != b2 and not (b2 in b.reach_from(b2, avoid={b2}) and False)
        # the later point must not be able to reach the earlier one again
        back = b1 in b.reach_from(b2)
        r.ob("R9.1.emission-order", "%s: %s before %s" % (fn, n1, n2), ok and not back,
             "%s dominates %s and cannot be re-entered after it" % (n1, n2) if ok and not back else "%s does not strictly precede %s" % (n1, n2),
             site=mir.Site(b, b2, None), key="R9.1|order|%s|%s" % (n1, n2))
    # every field emission belongs to exactly one group
    for e in em:
        if e.kind not in ("field", "rename"):
            continue
        in_attr = e.site.bb in al["blocks"]
        in_child = e.site.bb in cl["blocks"]
        in_text = e.site.bb in R.region_of_edge(tx["switch_bb"], tx["present"])
        n = in_attr + in_child + in_text
        r.ob("R9.1.field-in-group", "%s: %s emission" % (fn, e.kind), n == 1 and e.acc == R.main,
             "emitted in the %s group onto the struct accumulator" % ("attribute" if in_attr else "children" if in_child else "text") if n == 1 and e.acc == R.main
             else "field/rename emission outside the attribute, text and children groups (or onto the wrong accumulator)", site=e.site,
             key="R9.1|group|%s|%s" % (e.kind, e.template))
    # return value is the main accumulator; child structs are accumulated in iteration order inside the children loop
    okc = ch.acc == R.child_acc and ch.site.bb in cl["blocks"]
    r.ob("R9.1.preorder", fn, okc, "each child's structs are appended to the child accumulator inside the children loop (iteration order = field order)" if okc
         else "recursive renderings are not accumulated inside the children loop", site=ch.site, key="R9.1|preorder")
    # nothing is ever inserted in front: accumulators only modified by push_str
    for acc in sorted(R.accs):
        bad = []
        for cs in b.calls():
            for x in cs.node["args"]:
                if is_mut_ref(arg_ty(b, x)):
                    p = mir.op_place(x)
                    if p is not None and b.through_ref(p)["l"] == acc and (not b.through_ref(p)["p"] or b.through_ref(p)["p"] == ["deref"]) and \
                            cname(cs.node) not in ("std::string::String::push_str", "std::fmt::Write::write_fmt") and cs.node["callee"].get("path") != getattr(R, "orig_name", None):
                        bad.append(cs)
        r.ob("R9.1.append-only-output", "%s: accumulator _%d" % (fn, acc), not bad, "only modified by push_str / write!" if not bad else
             "also modified by %s" % [cname(x.node) for x in bad], site=(bad or [None])[0], key="R9.1|acc|%s" % ("main" if acc == R.main else "child"))


def _sort_calls(b, local):
    out = []
    for cs in b.calls():
        if not cs.node["args"]:
            continue
        p = mir.op_place(cs.node["args"][0])
        aty = arg_ty(b, cs.node["args"][0])
        if p is None or not is_mut_ref(aty):
            continue
        if not (aty.get("adt") == "std::vec::Vec" or aty.get("s", "").startswith("&mut [")):
            continue
        root = b.through_ref(p)
        # through deref_mut(&mut local)
        t = strip(term_of(b, cs.node["args"][0]))
        base = None
        for st in mir.subterms(t):
            if st[0] == "local" and st[1] == local:
                base = local
            if st[0] == "call" and len(st) > 3 and st[3].node["dest"]["l"] == local:
                base = local
        if (root["l"] == local and not root["p"]) or base == local:
            if cname(cs.node) in ("std::ops::DerefMut::deref_mut",):
                continue
            out.append(cs)
    return out


def _closure_reads(lib, clo_name):
    """field names read by a key closure"""
    cb = lib.bodies.get(clo_name)
    fields = set()
    calls = []
    if cb is None:
        return fields, calls
    for s in cb.sites():
        for p in mir.site_reads(s):
            for (adt, f) in mir.place_fields(cb.canon(p)):
                if adt and adt.startswith("element::"):
                    fields.add(f)
        if s.si is None and s.node["k"] == "call":
            calls.append(cname(s.node))
    return fields, calls


def source_rules(r, R):
    """the attribute / children loops run over (a clone of) the element's own complete vectors, and the
    clone is consumed by nothing but the sort calls and the loop"""
    b = R.body
    fn = b.name
    for what, l, field in (("attributes", R.attr_loop, "attributes"), ("children", R.child_loop, "children")):
        src = l["source"]
        ok = src[0] == "call" and src[1] == "std::clone::Clone::clone" and _is_self_field(src[2][0], field)
        r.ob("R9.2.iterates-own-%s" % what, fn, ok, "the %s loop runs over a clone of self.%s (%s)" % (what, field, " <- ".join(c.split("::")[-1] for c in l["chain"])) if ok else
             "the %s loop runs over %s" % (what, term_s(src)[:80]), site=l["next"], key="R9.2|source|%s" % what)
        if not ok:
            continue
        local = src[3].node["dest"]["l"]
        l["local"] = local
        # every other consumer of the (possibly sorted) clone: only the sort calls and the loop's iterator
        others = []
        for cs in b.calls():
            if cs == src[3]:
                continue
            for a in cs.node["args"]:
                p = mir.op_place(a)
                if p is None:
                    continue
                root = b.through_ref(p)
                t = strip(term_of(b, a))
                via_term = t == ("local", local) or (t[0] == "call" and len(t) > 3 and t[3] == src[3])
                if root["l"] != local and not via_term:
                    continue
                nm = cname(cs.node)
                if nm.startswith(("core::slice::sort", "std::slice::sort")) or nm in mir.TRANSPARENT_CALLS or \
                        nm in ("std::iter::IntoIterator::into_iter", "core::slice::iter", "std::vec::Vec::iter", "std::vec::Vec::len", "std::vec::Vec::is_empty"):
                    continue
                others.append(cs)
        r.ob("R9.2.clone-only-iterated", "%s: %s" % (fn, what), not others,
             "the ordered copy of self.%s is used only by the sort and by the %s loop" % (field, what) if not others else
             "the (option-dependently ordered) copy of self.%s is also handed to %s: something other than the field order can depend on the sort option" % (
                 field, [cname(c.node) for c in others]), site=(others or [l["next"]])[0], key="R9.2|clone-use|%s" % what)


def sort_rules(r, R):
    b = R.body
    fn = b.name
    source_rules(r, R)
    # sort option switch(es)
    sort_sw = []
    for bb in sorted(b.reachable()):
        sw = mir.switch_enum(b, bb)
        if sw is not None and sw["enum"] == "options::SortBy":
            sort_sw.append(sw)
    r.ob("R9.2.sort-option-tests", fn, len(sort_sw) == 2, "%d tests of options.sort (one for attributes, one for children)" % len(sort_sw),
         site=sort_sw[0]["site"] if sort_sw else None, key="R9.2|switches")
    all_sorts = {}
    for what, l in (("attributes", R.attr_loop), ("children", R.child_loop)):
        if "local" not in l:
            continue
        calls = _sort_calls(b, l["local"])
        all_sorts[what] = calls
        want = {"attributes": {"XmlName": "name"}, "children": {"XmlName": "name", "Unsorted": "position"}}[what]
        seen = {}
        for cs in calls:
            nm = cname(cs.node)
            if not (nm.startswith("core::slice::sort") or nm.startswith("std::slice::sort")) or "by_key" not in nm and "by_cached_key" not in nm:
                r.ob("R9.2.reordering", "%s: %s" % (fn, what), False, "the %s clone is modified by `%s`" % (what, nm), site=cs, key="R9.2|reorder|%s|%s" % (what, nm))
                continue
            # which alternative of options.sort controls it
            alts = set()
            for sw in sort_sw:
                for v in sw["variants"]:
                    t = mir.variant_target(sw, b, v)
                    if t is not None and cs.bb in R.region_of_edge(sw["site"].bb, t):
                        alts.add(v)
            clo = arg_ty(b, cs.node["args"][1]).get("closure") if len(cs.node["args"]) > 1 else None
            fields, ccalls = _closure_reads(R.lib, clo)
            plain = {"necessity::Necessity::inner_t", "std::string::ToString::to_string", "std::clone::Clone::clone", "std::ops::Deref::deref"}
            extra = sorted(set(ccalls) - plain)
            if what == "attributes":
                key = "name" if ("necessity::Necessity::inner_t" in ccalls and any("to_string" in c or "clone" in c for c in ccalls) and not fields) else "?"
            else:
                key = "name" if fields == {"name"} else "position" if fields == {"position"} else "+".join(sorted(fields)) or "?"
            if extra:
                key = "%s transformed by %s" % (key, ",".join(x.split("::")[-1] for x in extra))
            from .pm import guards_of, guard_s
            extra_g = [g for g in guards_of(b, cs.bb) if not (g[0] == "enum" and g[1] == "options::SortBy")]
            if extra_g:
                key = "%s, but only when %s" % (key, " && ".join(guard_s(g) for g in extra_g)[:80])
            for a in alts or {"<unconditional>"}:
                seen[a] = key
            r.ob("R9.2.sort-key", "%s: %s sorted under %s" % (fn, what, "/".join(sorted(alts)) or "no option test"),
                 bool(alts) and all(want.get(a) == key for a in alts),
                 "sorted by %s in the %s alternative" % (key, "/".join(sorted(alts))) if alts and all(want.get(a) == key for a in alts) else
                 "sorted by `%s` under %s; specification: %s" % (key, "/".join(sorted(alts)) or "every option value", want), site=cs,
                 key="R9.2|key|%s|%s|%s" % (what, "/".join(sorted(alts)), key))
        missing = {a: k for a, k in want.items() if seen.get(a) != k}
        r.ob("R9.2.sort-complete", "%s: %s" % (fn, what), not missing, "sorts present for %s" % want if not missing else
             "no sort of the %s clone by %s" % (what, missing), site=l["next"], key="R9.2|complete|%s" % what)


def _is_self_field(t, field):
    t = strip(t)
    return t[0] == "proj" and t[1] == ("arg", 1) and [e[3] for e in t[2] if e != "*" and e[0] == "f"] == [field]


def stored_order_rules(r, lib):
    # Element::new keeps the input order
    news = [b for b in lib.real_bodies() if b.name.endswith("Element::<T>::new") and b.kind != "closure"]
    for b in news:
        for s in b.assigns():
            rv = s.node["rv"]
            if rv["k"] == "agg" and rv.get("adt") == "element::Element":
                t = strip(term_of(b, rv["ops"][rv["fields"].index("attributes")]))
                chain = []
                while t[0] == "call" and t[2]:
                    chain.append(t[1])
                    t = strip(t[2][0])
                allowed = {"std::iter::Iterator::collect", "std::iter::Iterator::map", "std::iter::IntoIterator::into_iter", "std::iter::FromIterator::from_iter"}
                bad = [c for c in chain if c not in allowed]
                ok = not bad and t == ("arg", 2)
                r.ob("R9.3.constructor-keeps-order", b.name, ok, "attributes = %s(attributes parameter): order preserved" % " <- ".join(c.split("::")[-1] for c in chain) if ok
                     else "attributes field is built through %s from %s" % (bad, term_s(t)), site=s, key="R9.3|new")
    # merge_attr = merge(self.attributes, new)
    for b in lib.real_bodies():
        for cs in b.calls():
            if cs.node["callee"].get("path", "").endswith("merge_necessity") and cs.node["callee"].get("local"):
                a0 = strip(term_of(b, cs.node["args"][0]))
                a1 = strip(term_of(b, cs.node["args"][1]))
                ok = _is_self_field(a0, "attributes") and a1 == ("arg", 2)
                r.ob("R9.3.merge-argument-order", b.name, ok, "merge(self.attributes, newly seen attributes): known attributes keep their place, new ones are appended" if ok
                     else "merge is called as merge(%s, %s)" % (term_s(a0), term_s(a1)), site=cs, key="R9.3|merge-args|%s" % b.name)
                # result stored back
    c15.check_merge(r, lib, only_order=True)
    # the attribute vector is not reordered anywhere else
    writers = []
    from .common import look_through_private
    for b in lib.real_bodies():
        if "std::clone::Clone" in b.name or "std::fmt::Debug" in b.name:
            continue
        b = look_through_private(lib, b)
        for s in b.assigns():
            pl = b.canon(s.node["place"])
            fs = mir.place_fields(pl)
            if fs and fs[-1] == ("element::Element", "attributes"):
                writers.append((b, s))
            from .common import element_update, PseudoSite
            upd = element_update(b, s)
            if upd and "attributes" in upd:
                writers.append((b, PseudoSite(s, {"k": "assign", "place": s.node["place"], "rv": {"k": "use", "op": upd["attributes"]}, "span": s.node.get("span", {})})))
        for cs in b.calls():
            for x in cs.node["args"]:
                if is_mut_ref(arg_ty(b, x)):
                    t = strip(term_of(b, x))
                    if t[0] == "proj" and [e[3] for e in t[2] if e != "*" and e[0] == "f"][-1:] == ["attributes"] and \
                            any(e != "*" and e[0] == "f" and e[1] == "element::Element" for e in t[2]):
                        writers.append((b, cs))
    for (b, s) in writers:
        okw = False
        if s.si is not None and s.node["rv"]["k"] == "use":
            t = strip(term_of(b, s.node["rv"]["op"]))
            okw = t[0] == "call" and t[1].endswith("merge_necessity")
        r.ob("R9.3.attribute-writers", b.name, okw, "self.attributes is only replaced by the merge result" if okw else
             "self.attributes is modified here by something other than the merge", site=s, key="R9.3|writer|%s" % b.name)


def position_rules(r, lib):
    writes = []
    from .common import look_through_private
    for b in lib.real_bodies():
        if "std::clone::Clone" in b.name or "std::fmt::Debug" in b.name:
            continue
        b = look_through_private(lib, b)
        for s in b.assigns():
            rv = s.node["rv"]
            if rv["k"] == "agg" and rv.get("adt") == "element::Element":
                from .common import element_update, PseudoSite
                upd = element_update(b, s)
                if upd is not None and "position" not in upd:
                    continue    # struct update that keeps the position
                if upd is not None:
                    # `Element { position: v, ..child }` writes the position of that child: judged like an assignment
                    writes.append((b, PseudoSite(s, {"k": "assign", "place": s.node["place"], "rv": {"k": "use", "op": upd["position"]}, "span": s.node.get("span", {})})))
                    continue
                t = strip(term_of(b, rv["ops"][rv["fields"].index("position")]))
                ok = t[0] == "agg" and t[2] == "None" and upd is None
                r.ob("R9.4.position-initially-none", b.name, ok, "a freshly constructed element has no position" if ok else
                     "constructor sets position to %s" % term_s(t), site=s, key="R9.4|init|%s" % b.name)
            pl = b.canon(s.node["place"])
            fs = mir.place_fields(pl)
            if fs and fs[-1] == ("element::Element", "position"):
                writes.append((b, s))
        for cs in b.calls():
            for x in cs.node["args"]:
                if is_mut_ref(arg_ty(b, x)):
                    t = strip(term_of(b, x))
                    if t[0] == "proj" and [e[3] for e in t[2] if e != "*" and e[0] == "f"][-1:] == ["position"]:
                        writes.append((b, cs))
    r.ob("R9.4.position-single-writer", "library", len(writes) == 1, "position is assigned at exactly one site (%s)" % [w[1].loc() for w in writes],
         site=writes[0][1] if writes else None, key="R9.4|writers")
    for (b, s) in writes:
        if s.si is None:
            # position.get_or_insert(children.len()) / get_or_insert_with(|| ..): writes only a position that is still None
            okc = False
            if cname(s.node) in ("std::option::Option::get_or_insert",) and len(s.node["args"]) == 2:
                v = strip(term_of(b, s.node["args"][1]))
                okc = v[0] == "call" and v[1] in ("std::vec::Vec::len", "core::slice::len") and _is_self_field(strip(v[2][0]), "children")
                if okc:
                    # the length is read before the insertion and the insertion follows
                    okc = any(cs.bb in b.reach_from(s.bb) and cs.node["args"] and _is_self_field(strip(term_of(b, cs.node["args"][0])), "children") and
                              is_mut_ref(arg_ty(b, cs.node["args"][0])) for cs in b.calls()) and \
                        not any(cs.bb in b.reach_from(v[3].bb) and s.bb in b.reach_from(cs.bb) and cs.node["args"] and is_mut_ref(arg_ty(b, cs.node["args"][0])) and
                                _is_self_field(strip(term_of(b, cs.node["args"][0])), "children") for cs in b.calls())
            r.ob("R9.4.position-write", b.name, okc, "position.get_or_insert(self.children.len()): set only when still None, before the insertion into self.children" if okc else
                 "position handed out by unique reference to `%s`" % cname(s.node), site=s, key="R9.4|write|%s|call" % b.name)
            continue
        t = strip(term_of(b, s.node["rv"]["op"])) if s.node["rv"]["k"] == "use" else ("?",)
        if s.node["rv"]["k"] == "agg":
            t = ("agg", s.node["rv"].get("adt"), s.node["rv"].get("variant"), {str(i): term_of(b, o) for i, o in enumerate(s.node["rv"]["ops"])})
        ok_val = False
        vec = None
        if t[0] == "agg" and t[2] == "Some":
            v = strip(list(t[3].values())[0])
            if v[0] == "call" and v[1] in ("std::vec::Vec::len", "core::slice::len"):
                vec = strip(v[2][0])
                ok_val = _is_self_field(vec, "children")
        # guarded by is_none() on the same field
        guarded = False
        for (a, succ) in b.transitive_control_deps(s.bb):
            tt = b.blocks[a]["term"]
            if tt["k"] == "switch":
                c = strip(term_of(b, tt["op"]))
                if c[0] == "call" and c[1] in ("std::option::Option::is_none", "std::option::Option::is_some"):
                    g = strip(c[2][0])
                    samefield = g[0] == "proj" and [e[3] for e in g[2] if e != "*" and e[0] == "f"][-1:] == ["position"]
                    truth = succ == tt["otherwise"]
                    if samefield and ((c[1].endswith("is_none") and truth) or (c[1].endswith("is_some") and not truth)):
                        guarded = True
        # followed by the push into the same vector (the insertion)
        pushes = [cs for cs in b.calls() if s.bb in b.dom().get(cs.bb, ()) or b.dominates(s.bb, cs.bb)]
        ins = False
        for cs in b.calls():
            if cs.bb in b.reach_from(s.bb) and cs.node["args"]:
                a0 = strip(term_of(b, cs.node["args"][0]))
                if _is_self_field(a0, "children") and is_mut_ref(arg_ty(b, cs.node["args"][0])):
                    ins = True
        # equivalent unguarded form: position = position.or(Some(children.len()))
        if not ok_val and t[0] == "call" and t[1] in ("std::option::Option::or",) and len(t[2]) == 2:
            first = strip(t[2][0], mir.VALUE_PRESERVING)
            second = strip(t[2][1])
            same = first[0] == "proj" and [e[3] for e in first[2] if e != "*" and e[0] == "f"][-1:] == ["position"]
            if same and second[0] == "agg" and second[2] == "Some":
                v = strip(list(second[3].values())[0])
                if v[0] == "call" and v[1] in ("std::vec::Vec::len", "core::slice::len") and _is_self_field(strip(v[2][0]), "children"):
                    ok_val = guarded = True
        ok = ok_val and guarded and ins
        r.ob("R9.4.position-write", b.name, ok, "position = Some(self.children.len()) only when still None, followed by the insertion into self.children" if ok else
             "position write: value ok=%s (%s), guarded by is_none=%s, followed by insertion=%s" % (ok_val, term_s(t)[:60], guarded, ins), site=s,
             key="R9.4|write|%s" % b.name)
