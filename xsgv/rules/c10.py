"""C10 - options change exactly what they name and nothing else.

Non-interference, decided by dependence: which functions can see an Options
value at all (signatures), and inside the renderer the complete use set of
every Options field."""
from .. import fmt, mir
from ..mir import strip, term_of, term_s
from . import nondet, renderer
from .common import arg_ty, cname, method, norm, self_ty

EXPLANATION = (
    "(R10.1) by signature, the only library functions with an Options-typed parameter are the public renderer entry, the "
    "recursive renderer and the Options builders; name hints, identifier map, struct-name expansion and type selection take none, "
    "and there is no shared state, so the set of structs, identifiers, types are independent of the options. (R10.2) every read "
    "through the &Options parameter inside the renderer is classified: derive -> is_empty() controlling only the derive emission, "
    "and the display argument of the template `#[derive({})]`; sort -> discriminant tests whose alternatives contain only sort calls "
    "on the local clones; attribute_prefix -> first display argument of the two-slot template building the attribute's serde name, "
    "which is used only by `identifier != serde name` (controlling only the rename emission) and as the rename's argument; "
    "text_identifier -> the rename's argument in the text block; the whole reference -> the recursive call. Any other use is a "
    "violation. (R10.3) the derive emission depends on nothing but derive.is_empty() and precedes the header of every struct. "
    "(R10.4) attribute/child renames are emitted exactly under `identifier != bound name` and show the bound name. (R10.5) the "
    "preset constructors and Options::derive are plain field constructors.")


def run(ctx):
    r = ctx.run
    r.explanation = EXPLANATION
    lib = ctx.lib
    R = renderer.Renderer(lib)
    r.ob("A6.renderer-model", "library", R.ok, "renderer = %s" % R.body.name if R.ok else "renderer shape not recognised: %s" % "; ".join(R.problems), key="A6.model")
    signature_rules(r, lib, R)
    if R.ok:
        use_rules(r, R)
        rename_rules(r, R)
        from . import c09
        c09.source_rules(r, R)
    constructor_rules(r, lib)
    nondet.scan_shared_state(r, lib)
    # the command line reaches the options only through the conversions of src/args.rs and the three
    # assignments in run(): R12.4 / R12.5 (shared with C12)
    from . import c12
    b = ctx.bin
    runs = [x for x in b.real_bodies() if any(cname(c.node).endswith("::into_struct") for c in x.calls())]
    if len(runs) == 1:
        cg = b.callgraph()
        top = runs[0]
        for _ in range(4):
            if top.name in cg.get("main", ()):
                break
            callers = [n for n, cs_ in cg.items() if top.name in cs_ and n != top.name and not n.startswith("<")]
            if len(callers) != 1:
                break
            top = b.bodies[callers[0]]
        rb = mir.inline_calls(b, top, lambda cb, t: not cb.name.startswith("<") and "::<impl " not in cb.name and cb.kind in ("fn", "assoc_fn") and cb.name != "main")
        rend = [c for c in rb.calls() if cname(c.node).endswith("Element::to_serde_struct")]
        if len(rend) == 1:
            c12.check_options(r, rb, rend[0], "")
        else:
            r.ob("R12.4.options", rb.name, False, "expected one to_serde_struct call in the CLI, found %d" % len(rend), key="R12.4|render-call")
        c12.check_tables(r, b, "")
    r.trust("fmt::Display of String reproduces the string verbatim; String::is_empty / != compare contents")


def signature_rules(r, lib, R):
    allowed = set()
    for path, f in sorted(lib.fns.items()):
        tys = [t.get("s", "") for t in f["inputs"]] + [f["output"].get("s", "")]
        carriers = getattr(R, "carriers", set()) if R is not None else set()
        if not any("options::Options" in t or "options::SortBy" in t or any(c in t for c in carriers) for t in tys):
            continue
        kind = None
        if f.get("impl_self", {}).get("adt") == "options::Options":
            kind = "Options builder"
        elif R.ok and (path == R.body.name or path in [b.name for b in R.entry] or path in getattr(R, "helpers", ())):
            kind = "renderer"
        r.ob("R10.1.options-visibility", path, kind is not None,
             "%s (may depend on options by design)" % kind if kind else "function outside the renderer receives/returns Options: its result can vary with the options",
             site=mir.line_of(f["span"]), key="R10.1|%s" % path)
    # closures inside non-renderer functions cannot capture Options either: check locals of all other bodies
    n = 0
    for b in lib.real_bodies():
        if R.ok and (b.name == R.body.name or b.name.startswith(R.body.name + "::") or b.name in [x.name for x in R.entry] or b.name in getattr(R, "helpers", ())):
            continue
        if b.name.startswith("options::") or b.name.startswith("<options::"):
            continue    # constructors, builders and trait impls of the option types themselves (judged by R10.5)
        bad = [i for i, l in enumerate(b.locals) if "options::Options" in l["ty"]["s"] or "options::SortBy" in l["ty"]["s"]]
        n += 1
        if bad:
            r.ob("R10.1.options-visibility", b.name, False, "body outside the renderer holds an Options/SortBy value (local _%d)" % bad[0],
                 site=mir.line_of(b.span), key="R10.1|local|%s" % b.name)
    r.ob("R10.1.options-free-bodies", "library", True, "%d bodies outside the renderer hold no Options/SortBy value (name hints, identifier map, expand_name, parser, merge)" % n,
         key="R10.1|free", nontrivial=True)
    # the entry point forwards the same options unchanged
    if R.ok:
        for e in R.entry:
            for cs in e.calls():
                if cs.node["callee"].get("path") == R.body.name:
                    t = strip(term_of(e, cs.node["args"][R.opt_arg - 1]))
                    ok = t[0] == "arg"
                    if not ok and t[0] == "agg" and t[1] in getattr(R, "carriers", ()):
                        ok = any(strip(v)[0] == "arg" and "options::Options" in e.local_ty(strip(v)[1]).get("s", "") for v in t[3].values())
                    r.ob("R10.1.entry-forwards-options", e.name, ok, "the public entry passes its &Options through unchanged" if ok else
                         "the public entry passes %s" % term_s(t), site=cs, key="R10.1|forward|%s" % e.name)


def _only_emissions(R, blocks, allowed, allow_calls=()):
    """emissions and other effects inside `blocks`; returns list of problems"""
    b = R.body
    problems = []
    for e in R.emissions_in(blocks):
        if e not in allowed:
            problems.append("emission %r at %s" % (e.template or e.kind, e.site.loc()))
    for bb in blocks:
        t = b.blocks[bb]["term"]
        if t["k"] != "call":
            continue
        for a in t["args"]:
            if arg_ty(b, a).get("s", "").startswith("&mut ") and cname(t) not in ("std::string::String::push_str", "std::fmt::Write::write_fmt") and \
                    not cname(t).startswith(tuple(allow_calls) or ("\0",)):
                problems.append("call `%s` with a unique reference at %s" % (cname(t), mir.Site(b, bb, None).loc()))
        if t["callee"].get("path") == b.name:
            problems.append("recursive rendering at %s" % mir.Site(b, bb, None).loc())
    for bb in blocks:
        if b.blocks[bb]["term"]["k"] == "return":
            problems.append("return inside the region")
    return problems


def use_rules(r, R):
    b = R.body
    fn = b.name
    reads = R.option_field_reads()
    seen_fields = set()
    for field, site, cp in reads:
        seen_fields.add(field)
        n = site.node
        key = "R10.2|%s|" % (field or "<whole>")
        if field is None:
            # whole reference: only handed to the recursive call (possibly through copies of the reference,
            # e.g. parameters of inlined emission helpers, whose field reads are classified on their own)
            dst = n["place"]["l"] if site.si is not None and n["k"] == "assign" else None
            aliases = set()
            work = [dst] if dst is not None else []
            while work:
                x = work.pop()
                if x in aliases:
                    continue
                aliases.add(x)
                for s2 in b.assigns():
                    rv2 = s2.node["rv"]
                    if s2.node["place"]["p"]:
                        continue
                    src = None
                    if rv2["k"] == "use":
                        src = mir.op_place(rv2["op"])
                        if src is not None and src["p"]:
                            src = None
                    elif rv2["k"] == "ref" and rv2["place"]["p"] == ["deref"]:
                        src = rv2["place"]
                    if src is not None and src["l"] == x:
                        work.append(s2.node["place"]["l"])
            users = [cs for cs in b.calls() if any(mir.op_place(a) is not None and mir.op_place(a)["l"] in aliases and not mir.op_place(a)["p"] for a in cs.node["args"])]
            bad_users = [u for u in users if u.node["callee"].get("path") != getattr(R, "orig_name", fn) and u.node["callee"].get("path") != fn]
            ok = not bad_users
            r.ob("R10.2.option-use", "%s: &options" % fn, ok, "passed on to the recursive rendering only" if ok else
                 "the options reference is handed to %s" % [cname(u.node) for u in bad_users], site=site, key=key + "recursive")
            continue
        if site.si is not None and n["k"] == "assign" and n["rv"]["k"] == "discr":
            # enum-valued option: the switch and its alternatives
            if field != "sort":
                r.ob("R10.2.option-use", "%s: options.%s" % (fn, field), False, "discriminant test on options.%s" % field, site=site, key=key + "discr")
                continue
            sw = mir.switch_enum(b, site.bb)
            problems = []
            if sw is None:
                problems.append("not a direct match")
            else:
                for v in sw["variants"]:
                    t = mir.variant_target(sw, b, v)
                    if t is None:
                        continue
                    region = R.region_of_edge(site.bb, t)
                    for bb in region:
                        tt = b.blocks[bb]["term"]
                        if tt["k"] == "call":
                            nm = cname(tt)
                            if nm.startswith("core::slice::sort") or nm.startswith("std::slice::sort") or nm in ("std::ops::DerefMut::deref_mut",):
                                continue
                            problems.append("`%s` under options.sort == %s" % (nm, v))
                    problems += _only_emissions(R, region, [], allow_calls=("core::slice::sort", "std::slice::sort", "std::ops::DerefMut::deref_mut"))
            r.ob("R10.2.option-use", "%s: options.sort" % fn, not problems, "the alternatives of this test contain only sort calls on local clones" if not problems
                 else "options.sort also controls: %s" % "; ".join(sorted(set(problems))[:3]), site=site, key=key + "switch|%s" % ("ok" if not problems else norm(problems[0])[:40]))
            continue
        # a reference to the field: find its consumer
        if not (site.si is not None and n["k"] == "assign" and n["rv"]["k"] == "ref" and not n["rv"]["mut"]):
            r.ob("R10.2.option-use", "%s: options.%s" % (fn, field), False, "options.%s is used in an unrecognised way (%s)" % (field, n.get("k")), site=site, key=key + "unknown")
            continue
        tmp = n["place"]["l"]
        consumers = _consumers(b, tmp)
        for cs in consumers:
            nm = cname(cs.node)
            if nm == "std::string::String::is_empty" and field == "derive":
                nb = b.succs(cs.bb)
                tt = b.blocks[nb[0]]["term"] if nb else {}
                if tt.get("k") != "switch":
                    r.ob("R10.2.option-use", "%s: options.derive.is_empty()" % fn, False, "result is not branched on directly", site=cs, key=key + "is_empty|shape")
                    continue
                non_empty = tt["targets"][0][1]
                region = R.region_of_edge(nb[0], non_empty)
                der = [e for e in R.emissions if e.kind == "derive"]
                problems = _only_emissions(R, region, der)
                empty_region = R.region_of_edge(nb[0], tt["otherwise"])
                problems += _only_emissions(R, empty_region, [])
                has = [e for e in der if e.site.bb in region]
                if len(has) != 1:
                    problems.append("derive emission not inside the non-empty alternative")
                r.ob("R10.2.option-use", "%s: options.derive.is_empty()" % fn, not problems,
                     "controls exactly the derive emission (emitted iff non-empty)" if not problems else "; ".join(problems[:3]), site=cs, key=key + "is_empty")
            elif nm == "core::fmt::rt::Argument::new_display":
                # which emission / string does the argument belong to
                owner = _format_owner(R, cs)
                if owner is None:
                    r.ob("R10.2.option-use", "%s: options.%s" % (fn, field), False, "formatted into something that is not an emission", site=cs, key=key + "display|unknown")
                elif owner[0] == "emission":
                    e = owner[1]
                    want = {"derive": "derive", "text_identifier": "rename"}.get(field)
                    ok = e.kind == want and len(e.args) == 1
                    if ok and field == "text_identifier":
                        ok = e.site.bb in R.region_of_edge(R.text_switch["switch_bb"], R.text_switch["present"])
                    r.ob("R10.2.option-use", "%s: options.%s" % (fn, field), ok,
                         "shown verbatim as the only argument of the %s emission %r" % (e.kind, e.template) if ok else
                         "options.%s is formatted into the %s emission %r" % (field, e.kind, e.template), site=cs, key=key + "display|%s" % e.kind)
                else:
                    # intermediate string (serde name)
                    pieces, args = owner[2]
                    ok = field == "attribute_prefix" and [p if isinstance(p, str) else "{}" for p in pieces] == ["{}", "{}"] and \
                        _is_field_of_options(args[0][1], "attribute_prefix")
                    r.ob("R10.2.option-use", "%s: options.%s" % (fn, field), ok,
                         "first argument of the two-slot template `{}{}` building the attribute's serde name" if ok else
                         "options.%s is formatted into an intermediate string %r" % (field, fmt.template_s(pieces)), site=cs, key=key + "display|intermediate")
                    if ok:
                        _serde_name_uses(r, R, owner[1])
                        _serde_local_name(r, R, args[1][1], owner[1])
            else:
                r.ob("R10.2.option-use", "%s: options.%s" % (fn, field), False, "options.%s is handed to `%s`" % (field, nm), site=cs, key=key + "call|%s" % nm)
        if not consumers:
            r.ob("R10.2.option-use", "%s: options.%s" % (fn, field), False, "reference to options.%s with no recognised consumer" % field, site=site, key=key + "noconsumer")
    adt = R.lib.adts.get("options::Options")
    fields = [f["name"] for f in adt["variants"][0]["fields"]] if adt else []
    for f in fields:
        r.ob("R10.2.field-is-used", "options.%s" % f, f in seen_fields, "the renderer reads options.%s" % f if f in seen_fields else "options.%s is never read: it cannot have its named effect" % f,
             key="R10.2|used|%s" % f)
    # R10.3 derive emission on every struct: depends only on is_empty, before the header
    der = [e for e in R.emissions if e.kind == "derive"]
    hdr = [e for e in R.emissions if e.kind == "header"]
    if len(der) == 1 and len(hdr) == 1:
        deps = b.transitive_control_deps(der[0].site.bb)
        branch_blocks = {a for (a, s) in deps}
        ok = len(branch_blocks) == 1
        if ok:
            a = next(iter(branch_blocks))
            c = strip(term_of(b, b.blocks[a]["term"]["op"]))
            ok = c[0] == "call" and c[1] == "std::string::String::is_empty" and _is_field_of_options(c[2][0], "derive")
        r.ob("R10.3.derive-on-every-struct", fn, ok, "the derive emission depends on nothing but options.derive.is_empty()" if ok else
             "the derive emission is additionally conditional on %s" % sorted(branch_blocks), site=der[0].site, key="R10.3|deps")
        ok2 = not b.transitive_control_deps(hdr[0].site.bb) and hdr[0].site.bb in b.reach_from(der[0].site.bb)
        r.ob("R10.3.derive-precedes-header", fn, ok2, "the header of every struct is emitted unconditionally, after the derive line" if ok2 else
             "header emission is conditional or not after the derive emission", site=hdr[0].site, key="R10.3|order")
    else:
        r.ob("R10.3.derive-on-every-struct", fn, False, "expected one derive and one header emission, found %d and %d" % (len(der), len(hdr)), key="R10.3|count")


def _consumers(b, tmp, depth=0):
    """calls consuming a reference temp (following re-borrows, tuple packing by format_args)"""
    out = []
    if depth > 24:
        return out
    for s in b.sites():
        if s.si is not None and s.node["k"] == "assign":
            rv = s.node["rv"]
            srcs = []
            if rv["k"] == "use":
                srcs = [rv["op"]]
            elif rv["k"] == "ref":
                p = rv["place"]
                if p["l"] == tmp and p["p"] in (["deref"], []):
                    out += _consumers(b, s.node["place"]["l"], depth + 1)
                continue
            elif rv["k"] == "agg":
                srcs = rv["ops"]
            for o in srcs:
                p = mir.op_place(o)
                if p is not None and p["l"] == tmp and not p["p"]:
                    if rv["k"] == "agg":
                        # tuple(_x): find projections _t.N copied out
                        tl = s.node["place"]["l"]
                        for s2 in b.assigns():
                            rv2 = s2.node["rv"]
                            if rv2["k"] == "use":
                                p2 = mir.op_place(rv2["op"])
                                if p2 is not None and p2["l"] == tl and p2["p"]:
                                    out += _consumers(b, s2.node["place"]["l"], depth + 1)
                    else:
                        out += _consumers(b, s.node["place"]["l"], depth + 1)
        elif s.si is None and s.node["k"] == "call":
            for a in s.node["args"]:
                p = mir.op_place(a)
                if p is not None and p["l"] == tmp and not p["p"]:
                    if cname(s.node) in mir.TRANSPARENT_CALLS:
                        out += _consumers(b, s.node["dest"]["l"], depth + 1)
                    else:
                        out.append(s)
    return out


def _format_owner(R, display_site):
    """the emission or the intermediate String that a new_display call feeds"""
    b = R.body
    for e in R.emissions:
        if e.fmt:
            for (k, a) in e.args:
                pass
        for st in mir.subterms(e.value):
            if st[0] == "call" and len(st) > 3 and st[3] == display_site:
                # is it directly an argument of e's own format, or of a nested format?
                direct = e.fmt is not None and any(_contains_site(a[1], display_site, stop_at_format=True) for a in e.args) is False
                own = e.fmt is not None and _arg_sites(e.value, display_site)
                if own:
                    return ("emission", e)
    # intermediate strings: std::fmt::format calls whose Arguments contain the display site
    for cs in b.calls():
        if cname(cs.node) == "std::fmt::format":
            t = term_of(b, cs.node["dest"])
            f = fmt.format_of(t)
            if f and _arg_sites(strip(t, mir.TRANSPARENT_CALLS + ("std::hint::must_use",)), display_site):
                return ("string", cs, f)
    return None


def _arg_sites(value_term, display_site):
    """is display_site one of the *direct* Argument::new_display calls of this format value?"""
    t = strip(value_term, mir.TRANSPARENT_CALLS + ("std::hint::must_use",))
    if t[0] == "call" and t[1] == "std::fmt::Arguments::new":
        a = t            # write!/writeln! onto the accumulator: the emission's value is the Arguments itself
    elif t[0] == "call" and t[1] == "std::fmt::format" and t[2]:
        a = strip(t[2][0])
    else:
        return False
    if not (a[0] == "call" and a[1] == "std::fmt::Arguments::new" and len(a[2]) == 2):
        return False
    arr = strip(a[2][1])
    if arr[0] != "agg":
        return False
    for v in arr[3].values():
        v = strip(v)
        if v[0] == "call" and len(v) > 3 and v[3] == display_site:
            return True
    return False


def _contains_site(t, site, stop_at_format=False):
    return any(st[0] == "call" and len(st) > 3 and st[3] == site for st in mir.subterms(t))


def _is_field_of_options(t, field):
    t = strip(t)
    if t[0] != "proj":
        return False
    fs = [e for e in t[2] if e != "*" and e[0] == "f"]
    # directly through the parameter, or through a context struct / a local copy of the reference
    return bool(fs) and fs[-1][3] == field and fs[-1][1] == "options::Options" and t[1][0] in ("arg", "local", "proj")


def _serde_local_name(r, R, t, format_site):
    """R10.7: the name an attribute is bound to (after the prefix) is the real XML name exactly when the crate's
    namespace-declaration predicate holds for it, and remove_namespace(real name) otherwise"""
    from .pm import guards_of
    b = R.body
    fn = b.name
    t = strip(t, mir.VALUE_PRESERVING)
    alts = []     # (value term, guards)
    if t[0] == "local":
        for d in b.defs().get(t[1], []):
            if d.si is None:
                v = ("call", cname(d.node), [term_of(b, a) for a in d.node["args"]], d)
            elif d.node["k"] == "assign" and d.node["rv"]["k"] == "use" and not d.node["place"]["p"]:
                v = term_of(b, d.node["rv"]["op"])
            else:
                continue
            alts.append((strip(v, mir.VALUE_PRESERVING), guards_of(b, d.bb, within=R.attr_loop["blocks"])))
    else:
        alts.append((t, guards_of(b, format_site.bb, within=R.attr_loop["blocks"])))
    seen = {}
    problems = []
    for v, g in alts:
        preds = [x for x in g if x[0] == "call" and b.crate.bodies.get(x[4].node["callee"].get("path")) is not None and
                 b.crate.fns.get(x[4].node["callee"].get("path"), {}).get("output", {}).get("prim") == "bool"] if g else []
        shortened = v[0] == "call" and v[1].endswith("ConvertString::remove_namespace")
        real = strip(v[2][0], mir.VALUE_PRESERVING) if shortened else v
        if len(preds) != 1:
            problems.append("an alternative of the bound name is not selected by the namespace predicate alone (%d tests)" % len(preds))
            continue
        p = preds[0]
        parg = strip(p[2][0], mir.VALUE_PRESERVING) if p[2] else ("x",)
        if not mir.same_place_term(parg, real):
            problems.append("the predicate is asked about a different name than the one that is bound")
        if shortened == p[3]:
            problems.append("the %s name is bound when the namespace-declaration predicate is %s" % ("shortened" if shortened else "full", p[3]))
        seen[shortened] = True
    ok = not problems and seen.get(True) and seen.get(False)
    r.ob("R10.7.bound-attribute-name", fn, bool(ok), "bound name = full name for namespace declarations, remove_namespace(name) for every other attribute" if ok else
         ("; ".join(problems) or "the bound attribute name does not have the two alternatives full / shortened"), site=format_site, key="R10.7|bound-name")


def _serde_name_uses(r, R, format_site):
    """the attribute's serde name (an intermediate String): used only by `identifier != serde_name`
    (controlling only the rename emission) and as the rename's display argument"""
    b = R.body
    fn = b.name
    # the String local holding it: follow must_use
    holders = {format_site.node["dest"]["l"]}
    grown = True
    while grown:        # must_use(x) and whole-value moves (the result of an inlined text builder moved into the caller's variable)
        grown = False
        for cs in b.calls():
            if cname(cs.node) == "std::hint::must_use" and cs.node["args"]:
                p = mir.op_place(cs.node["args"][0])
                if p is not None and not p["p"] and p["l"] in holders and cs.node["dest"]["l"] not in holders and not cs.node["dest"]["p"]:
                    holders.add(cs.node["dest"]["l"])
                    grown = True
        for a in b.assigns():
            if a.node["rv"]["k"] == "use" and not a.node["place"]["p"] and a.node["place"]["l"] not in holders:
                p = mir.op_place(a.node["rv"]["op"])
                if p is not None and not p["p"] and p["l"] in holders:
                    holders.add(a.node["place"]["l"])
                    grown = True
    uses = []
    for h in list(holders):
        for s in b.sites():
            if s.si is not None and s.node["k"] == "assign" and s.node["rv"]["k"] == "ref" and s.node["rv"]["place"]["l"] == h and not s.node["rv"]["place"]["p"]:
                uses += _consumers(b, s.node["place"]["l"])
    kinds = []
    for u in uses:
        nm = cname(u.node)
        if nm in ("std::cmp::PartialEq::ne", "std::cmp::PartialEq::eq"):
            kinds.append(("cmp", u))
        elif nm == "core::fmt::rt::Argument::new_display":
            own = _format_owner(R, u)
            kinds.append(("display", u, own))
        else:
            kinds.append(("other", u))
    bad = [k for k in kinds if k[0] == "other" or (k[0] == "display" and not (k[2] and k[2][0] == "emission" and k[2][1].kind == "rename"))]
    r.ob("R10.2.serde-name-uses", fn, not bad and any(k[0] == "cmp" for k in kinds) and any(k[0] == "display" for k in kinds),
         "the prefixed serde name is used only in `identifier != serde name` and as the argument of the rename emission" if not bad else
         "the prefixed serde name is also used by %s" % [cname(k[1].node) for k in bad], site=format_site, key="R10.2|serde-name")


def rename_rules(r, R):
    """R10.4: in the attribute and children groups a rename is emitted exactly when identifier != bound name"""
    b = R.body
    fn = b.name
    for what, loop in (("attribute", R.attr_loop), ("child", R.child_loop)):
        ren = [e for e in R.emissions if e.kind == "rename" and e.site.bb in loop["blocks"]]
        fields = [e for e in R.emissions if e.kind == "field" and e.site.bb in loop["blocks"]]
        if len(ren) != 1 or not fields:
            r.ob("R10.4.rename-guard", "%s: %s group" % (fn, what), False, "expected one rename emission and field emissions in the %s loop (found %d, %d)" % (what, len(ren), len(fields)),
                 site=loop["next"], key="R10.4|%s|count" % what)
            continue
        e = ren[0]
        bound = strip(e.args[0][1], mir.TRANSPARENT_CALLS)
        ident_locals = []
        for fe in fields:
            t = strip(fe.args[0][1], mir.TRANSPARENT_CALLS)
            if not any(mir.same_place_term(t, x) for x in ident_locals):
                ident_locals.append(t)
        ok_ident = len(ident_locals) == 1
        ident = ident_locals[0]
        # guard
        deps = {(a, s) for (a, s) in b.transitive_control_deps(e.site.bb) if a in loop["blocks"] and a != b.succs(loop["next"].bb)[0]}
        guard_ok = False
        why = "no guard"
        if len({a for a, _ in deps}) == 1:
            a, s = next(iter(deps))
            tt = b.blocks[a]["term"]
            c = strip(term_of(b, tt["op"])) if tt["k"] == "switch" else ("x",)
            if c[0] == "call" and c[1] in ("std::cmp::PartialEq::ne", "std::cmp::PartialEq::eq") and len(c[2]) == 2:
                x, y = strip(c[2][0], mir.TRANSPARENT_CALLS), strip(c[2][1], mir.TRANSPARENT_CALLS)
                truth = (s == tt["otherwise"])
                differs = truth if c[1].endswith("::ne") else not truth
                pair_ok = (mir.same_place_term(x, ident) and mir.same_place_term(y, bound)) or (mir.same_place_term(y, ident) and mir.same_place_term(x, bound))
                guard_ok = differs and pair_ok
                why = "guard compares %s with %s (emitted when they %s)" % (term_s(x)[:40], term_s(y)[:40], "differ" if differs else "are EQUAL")
            else:
                why = "guard is %s" % term_s(c)[:60]
        else:
            why = "the rename emission depends on %d tests inside the loop" % len({a for a, _ in deps})
        r.ob("R10.4.rename-guard", "%s: %s group" % (fn, what), guard_ok and ok_ident,
             "rename emitted exactly when the field identifier differs from the bound name, and shows the bound name" if guard_ok and ok_ident else why,
             site=e.site, key="R10.4|%s|guard" % what)
        # field emissions are not conditional on option values: their control deps inside the loop are tag/standalone/text-only tests
        for fe in fields:
            deps = b.transitive_control_deps(fe.site.bb)
            bad = []
            for (a, s) in deps:
                tt = b.blocks[a]["term"]
                if tt["k"] != "switch":
                    continue
                org = b.origins(tt["op"], transparent=lambda t: True)
                if any(o[0] == "arg" and o[1] == R.opt_arg for o in org):
                    bad.append(mir.Site(b, a, None).loc())
            r.ob("R10.4.fields-independent-of-options", "%s: %s field %r" % (fn, what, fe.template), not bad,
                 "no test on an option value controls this field emission" if not bad else "controlled by option-dependent tests at %s" % bad,
                 site=fe.site, key="R10.4|%s|field|%s" % (what, fe.template))
    xmlns_predicate(r, R)
    # text group
    tx = R.text_switch
    region = R.region_of_edge(tx["switch_bb"], tx["present"])
    ems = R.emissions_in(region)
    kinds = sorted(e.kind for e in ems)
    ok = kinds == ["field", "rename"]
    r.ob("R10.4.text-group", fn, ok, "when text is present: one rename (bound to options.text_identifier) and one field emission" if ok else
         "text group emits %s" % kinds, site=tx["site"], key="R10.4|text")


def xmlns_predicate(r, R):
    """R10.6: the attribute group keeps a name unshortened exactly for namespace declarations: the crate predicate
    that selects between the real name and remove_namespace(real name) is `text starts with "xmlns:"`, in one of the
    enumerated idioms (find(':') + slice compare, split_once(':') + prefix compare, starts_with, strip_prefix)"""
    from .common import is_conjunction_of, normal_form
    b, lib = R.body, R.lib
    preds = []
    for cs in b.calls():
        if cs.bb not in R.attr_loop["blocks"]:
            continue
        cb = lib.bodies.get(cs.node["callee"].get("path"))
        f = lib.fns.get(cb.name, {}) if cb is not None else {}
        if cb is not None and f.get("output", {}).get("prim") == "bool" and len(f.get("inputs", [])) == 1 and f["inputs"][0].get("s") == "&str":
            preds.append((cs, cb))
    V = mir.VALUE_PRESERVING

    def colon_split(t):
        """'find' / 'split' if t is text.find(':') / text.split_once(':')"""
        t = strip(t, V)
        if t[0] == "call" and t[1] in ("core::str::find", "core::str::split_once") and len(t[2]) == 2 and strip(t[2][0], V) == ("arg", 1) and strip(t[2][1]) == ("const", ":"):
            return "find" if t[1].endswith("find") else "split"
        return None

    def payload(t, which):
        t = strip(t, V)
        if t[0] == "proj" and colon_split(t[1]) == which:
            path = [e[1] if e[0] == "dc" else (e[-1] if e[0] == "f" else e[1]) for e in t[2] if e != "*"]
            return path
        return None

    def atom_of(t):
        nm = t[1]
        a = [strip(x, V) for x in t[2]]
        if nm.endswith("Option::is_some") and len(a) == 1 and colon_split(a[0]):
            return ("has-colon", True)
        if nm.endswith("Option::is_none") and len(a) == 1 and colon_split(a[0]):
            return ("has-colon", False)
        if nm in ("core::str::starts_with",) and len(a) == 2 and a[0] == ("arg", 1) and a[1] == ("const", "xmlns:"):
            return ("starts-with-xmlns:", True)
        if nm.endswith("Option::is_some") and len(a) == 1 and a[0][0] == "call" and a[0][1] == "core::str::strip_prefix" and \
                strip(a[0][2][0], V) == ("arg", 1) and strip(a[0][2][1]) == ("const", "xmlns:"):
            return ("starts-with-xmlns:", True)
        if nm in ("std::cmp::PartialEq::eq", "std::cmp::PartialEq::ne") and len(a) == 2:
            lit = [x for x in a if x[0] == "const" and isinstance(x[1], str)]
            oth = [x for x in a if not (x[0] == "const" and isinstance(x[1], str))]
            if len(lit) == 1 and len(oth) == 1:
                L, o = lit[0][1], oth[0]
                k = None
                if o[0] == "call" and o[1] == "std::ops::Index::index" and strip(o[2][0], V) == ("arg", 1):
                    rg = strip(o[2][1])
                    if rg[0] == "agg" and rg[1] == "std::ops::RangeTo":
                        end = strip(rg[3]["end"])
                        if end[0] == "binop" and end[1] == "Add" and payload(end[2], "find") == ["Some", "0"] and strip(end[3])[0] == "const":
                            k = strip(end[3])[1]
                        elif payload(end, "find") == ["Some", "0"]:
                            k = 0
                elif payload(o, "split") == ["Some", "0", 0]:
                    k = 0
                if (L, k) in (("xmlns:", 1), ("xmlns", 0)):
                    return ("prefix-is-xmlns", nm.endswith("::eq"))
        return None
    for cs, cb in preds:
        pb = normal_form(lib, cb)
        ok, why = is_conjunction_of(pb, atom_of, ("has-colon", "prefix-is-xmlns"))
        if not ok:
            ok2, why2 = is_conjunction_of(pb, atom_of, ("starts-with-xmlns:",))
            ok, why = (ok2, why2) if ok2 else (ok, why)
        r.ob("R10.6.namespace-declaration-predicate", cb.name, ok, "an attribute name is kept unshortened exactly when it starts with \"xmlns:\"" if ok else
             "the predicate deciding whether an attribute keeps its prefix is not `text starts with \"xmlns:\"` in a recognised form (%s)" % why, site=cs, key="R10.6|xmlns")


def constructor_rules(r, lib):
    adt = lib.adts.get("options::Options")
    if adt is None:
        r.ob("R10.5.options-type", "library", False, "options::Options not found", key="R10.5|type")
        return
    fields = [f["name"] for f in adt["variants"][0]["fields"]]
    for path, f in sorted(lib.fns.items()):
        if f.get("impl_self", {}).get("adt") != "options::Options" or path not in lib.bodies or not f.get("pub"):
            continue
        from .common import look_through_private
        b = look_through_private(lib, lib.bodies[path])
        effects = [cname(cs.node) for cs in b.calls() if cname(cs.node) not in ("std::string::String::new",) and cname(cs.node) not in (
            "std::string::ToString::to_string", "std::convert::Into::into", "std::convert::From::from", "std::borrow::ToOwned::to_owned",
            "std::clone::Clone::clone", "std::string::String::new", "std::string::String::from")]
        aggs = [s for s in b.assigns() if s.node["rv"]["k"] == "agg" and s.node["rv"].get("adt") == "options::Options"]
        if f["inputs"] and f["inputs"][0].get("adt") == "options::Options":
            # builder: exactly one field overwritten with (a copy of) the argument
            writes = [s for s in b.assigns() if s.node["place"]["p"] and mir.place_fields(b.canon(s.node["place"]))[-1:] and
                      mir.place_fields(b.canon(s.node["place"]))[-1][0] == "options::Options"]
            names = sorted({mir.place_fields(b.canon(s.node["place"]))[-1][1] for s in writes})
            if not writes and len(aggs) == 1:
                # struct-update form: Self { <field>: copy of the argument, ..self }
                rv = aggs[0].node["rv"]
                changed = []
                same = True
                for fname, o in zip(rv["fields"], rv["ops"]):
                    tv = strip(term_of(b, o), mir.VALUE_PRESERVING)
                    if tv[0] == "proj" and strip(tv[1]) == ("arg", 1) and [e[3] for e in tv[2] if e != "*" and e[0] == "f"] == [fname]:
                        continue
                    if tv == ("arg", 2):
                        changed.append(fname)
                    else:
                        same = False
                okb = same and len(changed) == 1 and not effects and path.endswith("::" + changed[0])
                r.ob("R10.5.builder", path, okb, "rebuilds Self with exactly the field `%s` replaced by a copy of its argument" % changed[0] if okb else
                     "builder (struct-update form) changes fields %s" % changed, site=mir.line_of(b.span), key="R10.5|builder|%s" % path)
                continue
            ok = len(names) == 1 and not effects and path.endswith("::" + names[0])
            if ok:
                v = strip(term_of(b, writes[0].node["rv"]["op"]), mir.VALUE_PRESERVING) if writes[0].node["rv"]["k"] == "use" else ("?",)
                ok = v == ("arg", 2)
            r.ob("R10.5.builder", path, ok, "overwrites exactly the field `%s` with a copy of its argument" % names[0] if ok else
                 "builder writes fields %s (other calls: %s)" % (names, effects), site=mir.line_of(b.span), key="R10.5|builder|%s" % path)
        else:
            # a constructor that only hands on the value of another constructor of the same type (e.g. Default::default)
            deleg = [cs for cs in b.calls() if cs.node["dest"]["l"] == 0 and not cs.node["dest"]["p"] and not cs.node["args"] and
                     lib.fns.get(cs.node["callee"].get("path"), {}).get("impl_self", {}).get("adt") == "options::Options"]
            if not aggs and len(deleg) == 1 and effects == [cname(deleg[0].node)] and not f["inputs"]:
                r.ob("R10.5.preset-is-constant", path, True, "returns the value of the preset %s unchanged" % cname(deleg[0].node), site=mir.line_of(b.span), key="R10.5|preset|%s" % path)
                continue
            if not f["inputs"]:
                # a preset may start from another preset (`Self { f: .., ..Self::other() }`): judge the value it returns
                from .deps import preset_body, returned_options
                b = preset_body(lib, path)
                effects = [cname(cs.node) for cs in b.calls() if cname(cs.node) not in (
                    "std::string::ToString::to_string", "std::convert::Into::into", "std::convert::From::from", "std::borrow::ToOwned::to_owned",
                    "std::clone::Clone::clone", "std::string::String::new", "std::string::String::from")]
                aggs = returned_options(b)
            ok = len(aggs) == 1 and not effects
            vals = {}
            if ok:
                rv = aggs[0].node["rv"]
                for name, o in zip(rv["fields"], rv["ops"]):
                    t = strip(term_of(b, o), mir.VALUE_PRESERVING)
                    vals[name] = t[1] if t[0] == "const" else (t[2] if t[0] == "agg" else ("" if t[0] == "call" and t[1] == "std::string::String::new" else None))
                ok = all(v is not None for v in vals.values())
            r.ob("R10.5.preset-is-constant", path, ok, "plain constructor of constants %s" % vals if ok else "preset does more than build a constant Options (%s)" % effects,
                 site=mir.line_of(b.span), key="R10.5|preset|%s" % path)
