"""C05 - rendering is deterministic.

Argument: parsing + rendering is safe Rust without shared state, so its output
is a function of (input bytes, options) unless a run-dependent value enters:
hash iteration order, an address observed as an integer, clock, environment,
process/thread identity, randomness.  A1 enumerates every such source in the
library (and, in the thorough tier, in convert_string and in the other build
configurations) and requires each to be discharged by the hash-order
discipline.  Nothing is executed."""
from . import nondet
from .common import CheckerFailure

EXPLANATION = (
    "Every body of the library crate is scanned in MIR for nondeterminism sources: creation of hash-ordered iterators "
    "(found by callee and by type), closure-driven hash traversals, pointer-to-integer casts / {:p}, clock, environment, pid, "
    "threads, randomness, statics, thread-locals, interior mutability. Each hash iteration must be consumed by an "
    "order-insensitive reduction, by collection into a hash/btree container, or by a loop whose body only inserts into "
    "hash/btree containers, reads, and exits on exhaustion only. obligations == rule instances; discharged == instances that hold.")


def run(ctx):
    r = ctx.run
    r.explanation = EXPLANATION
    lib = ctx.lib
    n_iter, n_calls = nondet.scan_hash(r, lib)
    nondet.scan_other_sources(r, lib)
    nondet.scan_shared_state(r, lib)
    r.count("hash-container call sites", n_calls)
    r.count("hash iteration instances", n_iter)
    # floor: hand-counted on the pinned tree after fix F2: >= 1 hash iteration (compute_name_hints),
    # >= 8 call sites on hash containers.  A count of zero hash-container call sites means the
    # scanner lost its anchors (type names changed), not that the crate is clean.
    if n_calls < 1:
        r.note("no hash container is used in the library any more; A1.hash-* rules are vacuous on this tree")
    if ctx.thorough:
        for tag in ("env_logger", "release"):
            c = ctx.config(tag)["lib"]
            sub_iter, sub_calls = nondet.scan_hash(r, c, rule_prefix="A1[%s]" % tag)
            nondet.scan_other_sources(r, c, rule_prefix="A1[%s]" % tag)
        deps = ctx.config("deps")
        cs = deps["convert_string"]
        nondet.scan_hash(r, cs, rule_prefix="A1[convert_string]")
        nondet.scan_other_sources(r, cs, rule_prefix="A1[convert_string]")
        nondet.scan_shared_state(r, cs, rule="PM14[convert_string].no-shared-state")
    else:
        r.assume("convert_string (to_pascal_case, to_snake_case, to_valid_key, remove_namespace) is deterministic; scanned by the same rules in the thorough tier")
    r.trust("rustc nightly MIR (mir-opt-level=0) of the current /repo tree is faithful to the compiled program")
    r.trust("std, quick-xml's reader and the log facade introduce no run-dependent value into returned data")
    r.trust("safe Rust: no unsafe code in the crate (checked: no unsafe fn; MIR of safe code cannot observe addresses except by the casts scanned)")
    r.assume("the same quick_xml::Reader configuration and the same bytes are supplied on each repetition")
