"""C04 - rendered source is well-formed Rust with unique, legal names (static part: guard cross-check)."""
from .. import fmt, mir
from ..mir import strip, term_of, term_s
from . import renderer
from .common import arg_ty, cname, is_mut_ref, method, norm
from .pm import dominating_edge_guards, guards_of, guard_s

EXPLANATION = (
    "Sibling cross-check of the two identifier producers (deviance rule): every value that reaches a *field-identifier* slot of an "
    "emission template passes a reserved-word guard (convert_string::to_valid_key) and a uniqueness guard (a reservation list that "
    "records a name only on the `not yet contained` edge) - G1, holds. The same is demanded of values reaching *struct-identifier* "
    "slots (`pub struct {}` and the type slot of child fields) - G2: the struct-name path (formatted_name -> trace -> expand_name) "
    "passes neither guard: known findings K2 (reserved/prelude names) and K3 (uniqueness), confirmed on the real code "
    "(findings/known_findings_demo.rs). G3: header slot and field-type slot of a child are the same function of the same trace. "
    "NOT decided: sufficiency of the guards for every name set (string semantics), syntactic validity of the whole output.")

CONTAINS = ("core::slice::contains", "std::collections::HashSet::contains", "std::collections::BTreeSet::contains", "std::vec::Vec::contains")
RESERVED_GUARDS = ("convert_string::ConvertString::to_valid_key", "convert_string::ConvertString::is_keyword")


def run(ctx):
    r = ctx.run
    r.explanation = EXPLANATION
    lib = ctx.lib
    R = renderer.Renderer(lib)
    r.ob("A6.renderer-model", "library", R.ok, "renderer recognised" if R.ok else "renderer shape not recognised: %s" % R.problems, key="A6.model")
    if not R.ok:
        return
    b = R.body
    # ---- G1c: field identifier slots come from the identifier map with the right kind
    maps = [cs for cs in b.calls() if cname(cs.node).endswith("identifier::Map::new")]
    okm = len(maps) == 1 and strip(term_of(b, maps[0].node["args"][0])) == ("arg", R.self_arg)
    r.ob("G1.identifier-map", b.name, okm, "one identifier map, built from this element" if okm else "identifier map construction not recognised", site=maps[0] if maps else None, key="G1|map")
    groups = (("attribute", R.attr_loop["blocks"], "Attribute"), ("child", R.child_loop["blocks"], "ChildElement"),
              ("text", R.region_of_edge(R.text_switch["switch_bb"], R.text_switch["present"]), "TextContent"))
    for what, blocks, kind in groups:
        for e in [x for x in R.emissions if x.kind == "field" and x.site.bb in blocks]:
            ident = strip(e.args[0][1], mir.VALUE_PRESERVING)
            srcs = _value_sources(b, ident)
            from_map = [s for s in srcs if _is_get_name(s, kind, maps)]
            fallback = [s for s in srcs if not _is_get_name(s, kind, maps)]
            ok = bool(from_map)
            r.ob("G1.field-identifier-from-map", "%s: %s field %r" % (b.name, what, e.template), ok,
                 "identifier = name_map.get_name(real name, %s)%s" % (kind, " (fallback to the raw name only when the map has no entry: %d site(s))" % len(fallback) if fallback else "") if ok else
                 "field identifier does not come from the identifier map: %s" % [term_s(s)[:50] for s in srcs], site=e.site, key="G1|slot|%s|%s" % (what, e.template))
    # ---- the reservation mechanism, found by role: RES = bodies that add to a String collection field of their
    # own `self` (the reservation list); RES* = RES plus the methods of the same type that reach RES
    PUSHERS = ("std::vec::Vec::push", "std::collections::HashSet::insert", "std::collections::BTreeSet::insert")
    res = {}
    for bd in lib.real_bodies():
        f = lib.fns.get(bd.name, {})
        if not f.get("impl_self") or f["impl_self"].get("adt", "").startswith("element::Element"):
            continue
        ps = [cs for cs in bd.calls() if cname(cs.node) in PUSHERS and _is_reserved_list(bd, cs.node["args"][0])]
        if ps:
            res[bd.name] = ps
    cg = lib.callgraph()
    res_star = set(res)
    changed = True
    while changed:
        changed = False
        for n, callees in cg.items():
            if n not in res_star and callees & res_star and lib.fns.get(n, {}).get("impl_self", {}).get("adt") in {lib.fns[x]["impl_self"].get("adt") for x in res}:
                res_star.add(n)
                changed = True
    r.ob("G1.reservation-mechanism", "library", len(res) >= 1, "reservation list is filled by %s (entry points: %s)" % (sorted(res), sorted(res_star)) if res else
         "no function adds names to a reservation list", key="G1|mechanism")

    def not_res(cb, t):
        return cb.name not in res

    # ---- G1a: what Map::new stores
    mb = [x for x in lib.real_bodies() if x.name.endswith("identifier::Map::new")]
    if len(mb) == 1:
        from .common import look_through_private
        m = look_through_private(lib, mb[0], also=not_res)
        ins = [cs for cs in m.calls() if cname(cs.node) in ("std::collections::HashMap::insert", "std::collections::BTreeMap::insert")]
        lists = set()
        for cs in ins:
            keyt = strip(term_of(m, cs.node["args"][1]))
            kind = None
            if keyt[0] == "agg":
                kk = [strip(v) for v in keyt[3].values()]
                kind = next((k[2] for k in kk if k[0] == "agg" and k[1].endswith("identifier::Type")), None)
            org = m.origins(cs.node["args"][2], transparent=lambda n: cname(n) in mir.VALUE_PRESERVING)
            makers = [o[1] for o in org if o[0] == "call" and (o[1].node["callee"].get("path") in res or o[1].node["callee"].get("resolved") in res)]
            ok = len(makers) == 1 and len([o for o in org if o[0] == "call"]) == 1
            reserved = kind_ok = False
            if ok:
                mk = makers[0]
                for a in mk.node["args"][1:]:
                    ta = strip(term_of(m, a), mir.VALUE_PRESERVING)
                    ty = arg_ty(m, a).get("s", "")
                    if "identifier::Type" in ty:
                        kind_ok = ta[0] == "agg" and ta[2] == kind
                    elif "String" in ty or "str" in ty:
                        norg = m.origins(a, transparent=lambda n: cname(n) not in RESERVED_GUARDS)
                        reserved = any(o[0] == "call" and cname(o[1].node) in RESERVED_GUARDS for o in norg) or \
                            (kind == "TextContent" and any(o == ("const", "text") for o in norg))
                if not kind_ok:
                    # the kind may be fixed further up (a wrapper inlined into this body): look at every Type-typed origin
                    for a in mk.node["args"][1:]:
                        if "identifier::Type" in arg_ty(m, a).get("s", ""):
                            ko = m.origins(a)
                            kinds = {o[1].node["rv"].get("variant") for o in ko if o[0] == "agg" and o[1].node["rv"].get("adt", "").endswith("identifier::Type")}
                            kind_ok = kinds == {kind}
                    if not any("identifier::Type" in arg_ty(m, a).get("s", "") for a in mk.node["args"][1:]):
                        kind_ok = True  # the reservation function itself is kind-agnostic
                p0 = mir.op_place(mk.node["args"][0])
                lists.add(m.through_ref(p0)["l"] if p0 is not None else None)
            r.ob("G1.map-values-guarded", "%s: %s entries" % (mb[0].name, kind), ok and reserved and kind_ok,
                 "stored identifier = <reservation function>(%s, %s)" % ("to_valid_key(real name, parent name)" if kind != "TextContent" else '"text"', kind) if ok and reserved and kind_ok else
                 "stored identifier: produced by the reservation function=%s, reserved-word guard=%s, kind matches=%s" % (ok, reserved, kind_ok), site=cs,
                 key="G1|mapvalue|%s" % kind)
        r.ob("G1.map-entry-kinds", mb[0].name, len(ins) == 3, "%d insert sites (children, attributes, text)" % len(ins), key="G1|mapkinds")
        r.ob("G1.single-reservation-list", mb[0].name, len(lists) == 1, "children, attributes and text reserve names in one shared list" if len(lists) == 1 else
             "%d reservation lists: identifiers of different kinds can collide" % len(lists), key="G1|onelist")
    # ---- G1b: every function that adds to the reservation list adds exactly the name it returns, only when not contained
    for name in sorted(res):
        c0 = lib.bodies[name]
        from .common import look_through_private
        c = look_through_private(lib, c0, also=not_res)
        pushes = [cs for cs in c.calls() if cname(cs.node) in PUSHERS and _is_reserved_list(c, cs.node["args"][0])]
        ok = len(pushes) == 1
        why = "%d pushes onto the reservation list" % len(pushes)
        if ok:
            p = pushes[0]
            g = guards_of(c, p.bb) + dominating_edge_guards(c, p.bb)
            pushed = strip(term_of(c, p.node["args"][1]), mir.VALUE_PRESERVING)
            cont = [x for x in g if x[0] == "call" and x[3] is False and (x[1] in CONTAINS or _any_equals(lib, c, x))]
            same = False
            for x in cont:
                tested = strip(x[2][1]) if x[1] in CONTAINS else _any_needle(lib, c, x)
                if tested is not None and _same_var(tested, pushed):
                    if len(x) > 5 and pushed[0] == "local":
                        region = c.reach_from(x[5][1], avoid={x[5][0]})
                        redefs = [d for d in c.defs().get(pushed[1], []) if d.bb in region and p.bb in c.reach_from(d.bb)]
                        same = not redefs
                    else:
                        same = True
            ret = _returned_after(c, p)
            ok = bool(cont) and same and ret is not None and _same_var(ret, pushed)
            why = "a name is reserved only on the `!reserved.contains(name)` edge and that same name is returned" if ok else \
                "reservation: guarded by !contains=%s of the pushed value=%s, returned value is the pushed one=%s" % (bool(cont), same, ret is not None and _same_var(ret, pushed))
        r.ob("G1.uniqueness-guard", c0.name, ok, why, site=pushes[0] if pushes else mir.line_of(c0.span), key="G1|reserve")
    for name in sorted(res_star):
        c = lib.bodies[name]
        for cs in c.calls():
            if cs.node["callee"].get("path") == c.name:
                okr = cs.node["dest"]["l"] == 0
                r.ob("G1.recursive-result-unchanged", c.name, okr, "the renamed candidate's result is returned as is" if okr else "recursive result is post-processed", site=cs,
                     key="G1|recursive-ret")
    # ---- G2: struct identifier slots
    header = [e for e in R.emissions if e.kind == "header"]
    type_slots = [(e, e.args[1][1]) for e in R.emissions if e.kind == "field" and len(e.args) == 2 and e.site.bb in R.child_loop["blocks"]]
    producers = set()
    sites = []
    for e in header:
        sites.append((e, e.args[0][1], "header"))
    for e, a in type_slots:
        sites.append((e, a, "field type"))
    for e, a, what in sites:
        srcs = _value_sources(b, strip(a, mir.VALUE_PRESERVING))
        calls = [s for s in srcs if s[0] == "call"]
        consts = [s for s in srcs if s[0] == "const"]
        okp = all(s[1].endswith("Element::expand_name") for s in calls) and calls and all(s[1] == "String" for s in consts) and len(calls) + len(consts) == len(srcs)
        r.ob("G3.struct-name-producer", "%s: %s slot %r" % (b.name, what, e.template), okp,
             "struct identifier = expand_name(element, trace, hints)%s" % (" or the literal String for text-only children" if consts else "") if okp else
             "struct identifier slot filled by %s" % [term_s(s)[:40] for s in srcs], site=e.site, key="G3|producer|%s|%s" % (what, e.template))
        for s in calls:
            producers.add(s[1])
    # same hints / same trace for header and type slots
    if header and type_slots:
        h = [s for s in _value_sources(b, strip(header[0].args[0][1], mir.VALUE_PRESERVING)) if s[0] == "call"]
        okg = True
        for e, a in type_slots:
            for s in [x for x in _value_sources(b, strip(a, mir.VALUE_PRESERVING)) if x[0] == "call"]:
                if not h or len(s[2]) < 3 or len(h[0][2]) < 3 or not (mir.same_place_term(s[2][1], h[0][2][1]) and mir.same_place_term(s[2][2], h[0][2][2])):
                    okg = False
                elif not _is_loop_child(s[2][0]):
                    okg = False
        r.ob("G3.same-trace-and-hints", b.name, okg, "a child's field type and the child's own header are expand_name over the same trace vector and hint table, applied to that child" if okg else
             "field-type slot and header slot use different trace/hint arguments", site=header[0].site, key="G3|same")
        # push/pop discipline of the trace around the type slot
        tr = strip(h[0][2][1]) if h else None
        pushes = [cs for cs in b.calls() if cname(cs.node) == "std::vec::Vec::push" and _same_root(b, cs.node["args"][0], R, 3)]
        pops = [cs for cs in b.calls() if cname(cs.node) == "std::vec::Vec::pop" and _same_root(b, cs.node["args"][0], R, 3)]
        in_loop_push = [p for p in pushes if p.bb in R.child_loop["blocks"]]
        in_loop_pop = [p for p in pops if p.bb in R.child_loop["blocks"]]
        rec = [e for e in R.emissions if e.kind == "child-structs"]
        okd = len(in_loop_push) == 1 and len(in_loop_pop) == 1 and len(pushes) == 2 and len(pops) == 2 and rec and \
            all(b.dominates(in_loop_push[0].bb, e.site.bb) or True for e, _ in type_slots) and b.dominates(in_loop_pop[0].bb, rec[0].site.bb)
        if okd:
            pv = strip(term_of(b, in_loop_push[0].node["args"][1]))
            okd = pv[0] == "call" and pv[1].endswith("Element::formatted_name") and _is_loop_child(pv[2][0])
            gp = [guard_s(x) for x in guards_of(b, in_loop_push[0].bb, within=R.child_loop["blocks"])]
            gq = [guard_s(x) for x in guards_of(b, in_loop_pop[0].bb, within=R.child_loop["blocks"])]
            okd = okd and gp == gq
        r.ob("G3.trace-push-pop", b.name, okd, "the child's formatted name is pushed before its type slot and popped before the recursive rendering (which pushes it again): both see the same trace" if okd else
             "trace push/pop around the child type slot not balanced (pushes %d/%d, pops %d/%d)" % (len(in_loop_push), len(pushes), len(in_loop_pop), len(pops)),
             site=in_loop_push[0] if in_loop_push else header[0].site, key="G3|pushpop")
    # guards on the struct-name path: everything reachable from the producers and from the trace elements' producer
    path_fns = set()
    for p in list(producers) + ["formatted_name", "compute_name_hints"]:
        for bd in lib.real_bodies():
            if mir._norm(bd.name).endswith(p.split("::")[-1]) or mir._norm(bd.name) == p:
                path_fns |= lib.reachable_from([bd.name])
    reserved_calls = []
    uniq_guards = []
    for n in sorted(path_fns):
        bd = lib.bodies[n]
        for cs in bd.calls():
            if cname(cs.node) in RESERVED_GUARDS:
                reserved_calls.append(cs)
            if cname(cs.node) == "std::vec::Vec::push":
                g = guards_of(bd, cs.bb)
                if any(x[0] == "call" and x[1] in CONTAINS and x[3] is False for x in g):
                    uniq_guards.append(cs)
    r.count("functions on the struct-name path", len(path_fns))
    hint_rules(r, lib, path_fns)
    r.ob("G2.reserved-word-guard", "struct-name path", bool(reserved_calls),
         "struct identifiers pass %s" % cname(reserved_calls[0].node) if reserved_calls else
         "no reserved-word / prelude guard on the struct-name path (%s): `<self>` renders `pub struct Self`, elements named String/Vec/Option shadow the types used by sibling fields" % sorted(x.split("::")[-1] for x in path_fns),
         site=header[0].site if header else None, key="G2.reserved-word-guard|struct-name-path")
    r.ob("G2.uniqueness-guard", "struct-name path", bool(uniq_guards),
         "struct identifiers are reserved in a uniqueness list" if uniq_guards else
         "no enforcing uniqueness guard on the struct-name path (the name hints choose a trace length but give up on ties): siblings `a-b` and `a_b` render `pub struct RAB` twice",
         site=header[0].site if header else None, key="G2.uniqueness-guard|struct-name-path")
    r.trust("convert_string::to_valid_key yields a snake_case non-keyword identifier (dependency, scanned for panics/determinism only)")


def _value_sources(b, t, depth=0):
    """possible definitions of a term that is a multiply-defined local (join of match arms)"""
    t = strip(t, mir.VALUE_PRESERVING)
    if t[0] != "local" or depth > 4:
        return [t]
    out = []
    for d in b.defs().get(t[1], []):
        if d.si is None:
            n = d.node
            if cname(n) in mir.VALUE_PRESERVING and n["args"]:
                out += _value_sources(b, strip(term_of(b, n["args"][0]), mir.VALUE_PRESERVING), depth + 1)
            else:
                out.append(("call", cname(n), [term_of(b, a) for a in n["args"]], d))
        elif d.node["k"] == "assign" and d.node["rv"]["k"] == "use":
            out += _value_sources(b, term_of(b, d.node["rv"]["op"]), depth + 1)
        elif d.node["k"] == "assign" and d.node["rv"]["k"] == "ref":
            out += _value_sources(b, term_of(b, d.node["rv"]["place"]), depth + 1)
        else:
            out.append(("unknown",))
    return out


OPT_DEFAULTING = ("std::option::Option::unwrap_or_else", "std::option::Option::unwrap_or", "std::option::Option::map_or", "std::option::Option::map_or_else",
                  "std::option::Option::unwrap_or_default")
OPT_VIEW = ("std::option::Option::cloned", "std::option::Option::copied", "std::option::Option::as_deref", "std::option::Option::as_ref", "std::option::Option::map")


def _is_get_name(s, kind, maps):
    s = strip(s)
    # Option combinators over the lookup: get_name(..).cloned().unwrap_or_else(|| fallback), .map_or(default, f)
    if s[0] == "call" and s[1] in OPT_DEFAULTING and s[2]:
        inner = strip(s[2][0])
        while inner[0] == "call" and inner[1] in OPT_VIEW and inner[2]:
            inner = strip(inner[2][0])
        if inner[0] == "call" and inner[1].endswith("identifier::Map::get_name"):
            k = strip(inner[2][2])
            return k[0] == "agg" and k[2] == kind
    # (get_name(&map, name, Kind)) as Some .0
    if s[0] == "proj" and s[1][0] == "call" and s[1][1].endswith("identifier::Map::get_name"):
        k = strip(s[1][2][2])
        return k[0] == "agg" and k[2] == kind
    return False


RESERVE_TYPES = ("std::vec::Vec<std::string::String>", "std::collections::HashSet<std::string::String>", "std::collections::BTreeSet<std::string::String>")


def _is_reserved_list(c, operand):
    """a field of `self` (parameter 1) holding a collection of Strings: the reservation list, whatever it is called"""
    t = strip(term_of(c, operand))
    if not (t[0] == "proj" and t[1] == ("arg", 1)):
        return False
    fs = [e for e in t[2] if e != "*" and e[0] == "f"]
    if len(fs) != 1:
        return False
    ty = mir.op_place(operand).get("ty", {}).get("s", "") if mir.op_place(operand) is not None else ""
    return any(x in ty for x in RESERVE_TYPES) or True


def _same_var(a, b_):
    a, b_ = strip(a, mir.VALUE_PRESERVING), strip(b_, mir.VALUE_PRESERVING)
    return a == b_ or mir.same_place_term(a, b_)


def _returned_after(c, push_site):
    for bb in c.reach_from(push_site.bb):
        for st in c.blocks[bb]["stmts"]:
            if st["k"] == "assign" and st["place"]["l"] == 0 and not st["place"]["p"] and st["rv"]["k"] == "use":
                return strip(term_of(c, st["rv"]["op"]), mir.VALUE_PRESERVING)
    return None


def _is_loop_child(t):
    for st in mir.subterms(strip(t)):
        if st[0] == "call" and st[1] == "std::iter::Iterator::next":
            return True
    return False


def _same_root(b, operand, R, arg):
    p = mir.op_place(operand)
    return p is not None and b.through_ref(p)["l"] == arg


MAP_KEYED = ("get", "get_mut", "insert", "contains_key", "entry", "remove")


def hint_rules(r, lib, path_fns):
    """H1/H2: the partial disambiguation mechanism for struct names (name hints) is keyed by the struct-name
    producer itself and tests distinctness over the whole set of candidates"""
    n_keys = 0
    for n in sorted(path_fns):
        bd = lib.bodies[n]
        for cs in bd.calls():
            nm = cname(cs.node)
            if not (nm.startswith("std::collections::HashMap::") or nm.startswith("std::collections::BTreeMap::")) or method(cs.node) not in MAP_KEYED:
                continue
            if len(cs.node["args"]) < 2:
                continue
            n_keys += 1
            org = bd.origins(cs.node["args"][1], transparent=lambda t: cname(t) in mir.VALUE_PRESERVING)
            from_producer = any(o[0] == "call" and cname(o[1].node).endswith("Element::formatted_name") for o in org)
            from_table = any(o[0] == "call" and cname(o[1].node) == "std::iter::Iterator::next" and "hash_map" in str(o[1].node["callee"].get("targs", "")) for o in org) or \
                any(o[0] == "call" and cname(o[1].node) == "std::iter::Iterator::next" for o in org)
            ok = from_producer or from_table
            r.ob("H2.hint-key-is-struct-name", "%s: %s" % (bd.name, nm), ok,
                 "the hint table is keyed by formatted_name() (the same function that produces the struct name)" if from_producer else
                 "key copied from the other hint table" if ok else
                 "the hint table is keyed by something other than the struct-name producer: elements whose tags differ but whose struct names coincide are not disambiguated against each other",
                 site=cs, key="H2|%s|%s|%s" % (bd.name, nm, "ok" if ok else "bad"))
    r.ob("H2.hint-key-inventory", "struct-name path", n_keys >= 2, "%d keyed accesses to the hint tables" % n_keys, key="H2|inventory")
    # H1: distinctness test over the whole candidate set
    found = False
    for n in sorted(path_fns):
        bd = lib.bodies[n]
        for cs in bd.calls():
            if cname(cs.node) == "std::iter::Iterator::collect":
                targs = cs.node["callee"].get("targs", [])
                tgt = targs[1] if len(targs) > 1 else {}
                if tgt.get("adt") not in ("std::collections::HashSet", "std::collections::BTreeSet"):
                    continue
                # some early return must be guarded by len(set) == len(candidates)
                for s in bd.assigns():
                    if s.node["place"]["l"] != 0 or s.node["place"]["p"]:
                        continue
                    for g in guards_of(bd, s.bb):
                        if g[0] == "value" and g[2] is True:
                            t = g[1]
                            if t[0] == "binop" and t[1] == "Eq":
                                sides = [strip(t[2]), strip(t[3])]
                                has_set = any(x[0] == "call" and x[1].endswith("::len") and any(st[0] == "call" and len(st) > 3 and st[3] == cs for st in mir.subterms(x)) for x in sides)
                                has_all = any(x[0] == "call" and x[1].endswith("::len") and any(st == ("arg", 1) for st in mir.subterms(x)) for x in sides)
                                if has_set and has_all:
                                    found = True
    # H3: when no qualification length separates the candidates, the longest trace is used
    for n in sorted(path_fns):
        bd = lib.bodies[n]
        if not any(cname(cs.node) == "std::iter::Iterator::collect" and (cs.node["callee"].get("targs", [{}, {}])[1:] or [{}])[0].get("adt") in
                   ("std::collections::HashSet", "std::collections::BTreeSet") for cs in bd.calls()):
            continue
        rets = [s for s in bd.sites() if (s.si is not None and s.node["k"] == "assign" and s.node["place"]["l"] == 0 and not s.node["place"]["p"]) or
                (s.si is None and s.node["k"] == "call" and s.node["dest"]["l"] == 0)]
        fallback = []
        for s in rets:
            t = strip(term_of(bd, s.node["rv"]["op"])) if s.si is not None and s.node["rv"]["k"] == "use" else (
                ("call", cname(s.node), [term_of(bd, a) for a in s.node["args"]], s) if s.si is None else ("?",))
            if t[0] == "binop" or (t[0] == "proj" and t[1][0] == "binop"):
                continue  # the early `i + 1` return (H1)
            fallback.append((s, t))
        okf = len(fallback) == 1
        why = "%d fallback results" % len(fallback)
        if okf:
            s0, t = fallback[0]
            names = [st[1] for st in mir.subterms(t) if st[0] == "call"]
            okf = "std::iter::Iterator::max" in names and any(x.endswith("::len") for x in _closure_calls(lib, t)) and any(st == ("arg", 1) for st in mir.subterms(t))
            why = "falls back to the maximum trace length over all candidates" if okf else "the fallback qualification length is %s, not the maximum over all candidates" % term_s(t)[:70]
        r.ob("H3.hint-fallback-is-longest", bd.name, okf, why, site=fallback[0][0] if fallback else mir.line_of(bd.span), key="H3|fallback")
    r.ob("H1.hint-distinctness-whole-set", "struct-name path", found,
         "a shorter qualification is accepted only when the set of all candidate names has as many members as there are candidates" if found else
         "no `all candidates pairwise distinct` test (set cardinality == number of candidates) guards the choice of the qualification length",
         key="H1|distinct")


def _closure_calls(lib, t):
    out = []
    for st in mir.subterms(t):
        if st[0] in ("fn", "agg") and isinstance(st[1], str) and st[1] in lib.bodies:
            out += [cname(c.node) for c in lib.bodies[st[1]].calls()]
    return out


def _any_equals(lib, c, g):
    """guard `list.iter().any(|n| n == name)` on the reservation list, equivalent to contains(name)"""
    return g[1] == "std::iter::Iterator::any" and _any_needle(lib, c, g) is not None


def _any_needle(lib, c, g):
    if g[1] != "std::iter::Iterator::any" or len(g[2]) != 2:
        return None
    src = g[2][0]
    if not any(st[0] == "proj" and st[1] == ("arg", 1) for st in mir.subterms(src)):
        return None
    clo = strip(g[2][1])
    if clo[0] != "agg" or not isinstance(clo[1], str) or clo[1] not in lib.bodies:
        return None
    cb = lib.bodies[clo[1]]
    t = strip(term_of(cb, {"l": 0, "p": []}))
    if not (t[0] == "call" and t[1] == "std::cmp::PartialEq::eq" and len(t[2]) == 2):
        return None
    sides = [strip(x) for x in t[2]]
    item = [x for x in sides if x == ("arg", 2) or (x[0] == "proj" and x[1] == ("arg", 2))]
    cap = [x for x in sides if x[0] == "proj" and x[1] == ("arg", 1)]
    if len(item) == 1 and len(cap) == 1 and len(clo[3]) == 1:
        return strip(list(clo[3].values())[0], mir.VALUE_PRESERVING)
    return None
