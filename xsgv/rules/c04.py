"""C04 - rendered source is well-formed Rust with unique, legal names (static part: guard cross-check)."""
from .. import fmt, mir
from ..mir import strip, term_of, term_s
from . import renderer
from .common import arg_ty, cname, is_mut_ref, method, norm
from .pm import dominating_edge_guards, guards_of, guard_s

EXPLANATION = (
    "Sibling cross-check of the two identifier producers (deviance rule): every value that reaches a *field-identifier* slot of an "
    "emission template passes a reserved-word guard (convert_string::to_valid_key) and a uniqueness guard (a reservation list that "
    "records a name only on the `not yet contained` edge) - G1, holds. The same is demanded of values reaching *struct-identifier* "
    "slots (`pub struct {}` and the type slot of child fields) - G2: the struct-name path (formatted_name -> trace -> expand_name) "
    "passes neither guard: known findings K2 (reserved/prelude names) and K3 (uniqueness), confirmed on the real code "
    "(findings/known_findings_demo.rs). G3: header slot and field-type slot of a child are the same function of the same trace; "
    "the producer cuts its name from the own-name end of that trace, over at least as many entries as the hint stored for the name, "
    "and a name collected at more than one position gets the computed separating length (H7) - the two places where the "
    "distinguishing length is consumed; without them equal names at different positions yield equal struct names. "
    "NOT decided: sufficiency of the guards for every name set (string semantics), syntactic validity of the whole output.")

CONTAINS = ("core::slice::contains", "std::collections::HashSet::contains", "std::collections::BTreeSet::contains", "std::vec::Vec::contains")
RESERVED_GUARDS = ("convert_string::ConvertString::to_valid_key", "convert_string::ConvertString::is_keyword")


def run(ctx):
    r = ctx.run
    r.explanation = EXPLANATION
    core(r, ctx.lib)


def core(r, lib, struct_name_guards=True):
    """all rules of the pack; struct_name_guards=False leaves out G2 (the struct-name guards that are known to be
    missing - known findings of C04) when the pack is evaluated as a necessary condition of C02/C13"""
    R = renderer.Renderer(lib)
    r.ob("A6.renderer-model", "library", R.ok, "renderer recognised" if R.ok else "renderer shape not recognised: %s" % R.problems, key="A6.model")
    if not R.ok:
        return
    b = R.body
    template_grammar(r, R)
    map_coverage(r, lib, R)
    from .c16 import full_traversal
    full_traversal(r, lib)
    # ---- G1c: field identifier slots come from the identifier map with the right kind
    maps = [cs for cs in b.calls() if cname(cs.node).endswith("identifier::Map::new")]
    okm = len(maps) == 1 and strip(term_of(b, maps[0].node["args"][0])) == ("arg", R.self_arg)
    r.ob("G1.identifier-map", b.name, okm, "one identifier map, built from this element" if okm else "identifier map construction not recognised", site=maps[0] if maps else None, key="G1|map")
    groups = (("attribute", R.attr_loop["blocks"], "Attribute"), ("child", R.child_loop["blocks"], "ChildElement"),
              ("text", R.region_of_edge(R.text_switch["switch_bb"], R.text_switch["present"]), "TextContent"))
    for what, blocks, kind in groups:
        for e in [x for x in R.emissions if x.kind == "field" and x.site.bb in blocks]:
            ident = strip(e.args[0][1], mir.VALUE_PRESERVING)
            srcs = _value_sources(b, ident)
            from_map = [s for s in srcs if _is_get_name(s, kind, maps)]
            fallback = [s for s in srcs if not _is_get_name(s, kind, maps)]
            ok = bool(from_map)
            r.ob("G1.field-identifier-from-map", "%s: %s field %r" % (b.name, what, e.template), ok,
                 "identifier = name_map.get_name(real name, %s)%s" % (kind, " (fallback to the raw name only when the map has no entry: %d site(s))" % len(fallback) if fallback else "") if ok else
                 "field identifier does not come from the identifier map: %s" % [term_s(s)[:50] for s in srcs], site=e.site, key="G1|slot|%s|%s" % (what, e.template))
    # ---- the reservation mechanism, found by role: RES = bodies that add to a String collection field of their
    # own `self` (the reservation list); RES* = RES plus the methods of the same type that reach RES
    PUSHERS = ("std::vec::Vec::push", "std::collections::HashSet::insert", "std::collections::BTreeSet::insert")
    res = {}
    for bd in lib.real_bodies():
        f = lib.fns.get(bd.name, {})
        if not f.get("impl_self") or f["impl_self"].get("adt", "").startswith("element::Element"):
            continue
        ps = [cs for cs in bd.calls() if cname(cs.node) in PUSHERS and _is_reserved_list(bd, cs.node["args"][0])]
        if ps:
            res[bd.name] = ps
    cg = lib.callgraph()
    res_star = set(res)
    changed = True
    while changed:
        changed = False
        for n, callees in cg.items():
            if n not in res_star and callees & res_star and lib.fns.get(n, {}).get("impl_self", {}).get("adt") in {lib.fns[x]["impl_self"].get("adt") for x in res}:
                res_star.add(n)
                changed = True
    r.ob("G1.reservation-mechanism", "library", len(res) >= 1, "reservation list is filled by %s (entry points: %s)" % (sorted(res), sorted(res_star)) if res else
         "no function adds names to a reservation list", key="G1|mechanism")

    def not_res(cb, t):
        return cb.name not in res

    # ---- G1a: what Map::new stores
    mb = [x for x in lib.real_bodies() if x.name.endswith("identifier::Map::new")]
    if len(mb) == 1:
        from .common import look_through_private
        m = look_through_private(lib, mb[0], also=not_res)
        ins = [cs for cs in m.calls() if cname(cs.node) in ("std::collections::HashMap::insert", "std::collections::BTreeMap::insert")]
        lists = set()
        for cs in ins:
            keyt = strip(term_of(m, cs.node["args"][1]))
            kind = None
            if keyt[0] == "agg":
                kk = [strip(v) for v in keyt[3].values()]
                kind = next((k[2] for k in kk if k[0] == "agg" and k[1].endswith("identifier::Type")), None)
            org = m.origins(cs.node["args"][2], transparent=lambda n: cname(n) in mir.VALUE_PRESERVING)
            makers = [o[1] for o in org if o[0] == "call" and (o[1].node["callee"].get("path") in res or o[1].node["callee"].get("resolved") in res)]
            ok = len(makers) == 1 and len([o for o in org if o[0] == "call"]) == 1
            reserved = kind_ok = False
            if ok:
                mk = makers[0]
                for a in mk.node["args"][1:]:
                    ta = strip(term_of(m, a), mir.VALUE_PRESERVING)
                    ty = arg_ty(m, a).get("s", "")
                    if "identifier::Type" in ty:
                        kind_ok = ta[0] == "agg" and ta[2] == kind
                    elif "String" in ty or "str" in ty:
                        norg = m.origins(a, transparent=lambda n: cname(n) not in RESERVED_GUARDS)
                        reserved = any(o[0] == "call" and cname(o[1].node) in RESERVED_GUARDS for o in norg) or \
                            (kind == "TextContent" and any(o == ("const", "text") for o in norg))
                if not kind_ok:
                    # the kind may be fixed further up (a wrapper inlined into this body): look at every Type-typed origin
                    for a in mk.node["args"][1:]:
                        if "identifier::Type" in arg_ty(m, a).get("s", ""):
                            ko = m.origins(a)
                            kinds = {o[1].node["rv"].get("variant") for o in ko if o[0] == "agg" and o[1].node["rv"].get("adt", "").endswith("identifier::Type")}
                            kind_ok = kinds == {kind}
                    if not any("identifier::Type" in arg_ty(m, a).get("s", "") for a in mk.node["args"][1:]):
                        kind_ok = True  # the reservation function itself is kind-agnostic
                p0 = mir.op_place(mk.node["args"][0])
                lists.add(m.through_ref(p0)["l"] if p0 is not None else None)
            r.ob("G1.map-values-guarded", "%s: %s entries" % (mb[0].name, kind), ok and reserved and kind_ok,
                 "stored identifier = <reservation function>(%s, %s)" % ("to_valid_key(real name, parent name)" if kind != "TextContent" else '"text"', kind) if ok and reserved and kind_ok else
                 "stored identifier: produced by the reservation function=%s, reserved-word guard=%s, kind matches=%s" % (ok, reserved, kind_ok), site=cs,
                 key="G1|mapvalue|%s" % kind)
        r.ob("G1.map-entry-kinds", mb[0].name, len(ins) == 3, "%d insert sites (children, attributes, text)" % len(ins), key="G1|mapkinds")
        r.ob("G1.single-reservation-list", mb[0].name, len(lists) == 1, "children, attributes and text reserve names in one shared list" if len(lists) == 1 else
             "%d reservation lists: identifiers of different kinds can collide" % len(lists), key="G1|onelist")
    # ---- G1b: every function that adds to the reservation list adds exactly the name it returns, only when not contained
    for name in sorted(res):
        c0 = lib.bodies[name]
        from .common import look_through_private, normal_form
        ok, why, site = _uniqueness_guard(lib, look_through_private(lib, c0, also=not_res), c0)
        if not ok:
            # the same question on the normal form (iterator pipelines / closure calls made explicit)
            ok2, why2, site2 = _uniqueness_guard(lib, normal_form(lib, c0, also=not_res), c0)
            if ok2:
                ok, why, site = ok2, why2, site2
        r.ob("G1.uniqueness-guard", c0.name, ok, why, site=site, key="G1|reserve")
    for name in sorted(res_star):
        c = lib.bodies[name]
        for cs in c.calls():
            if cs.node["callee"].get("path") == c.name:
                okr = cs.node["dest"]["l"] == 0
                r.ob("G1.recursive-result-unchanged", c.name, okr, "the renamed candidate's result is returned as is" if okr else "recursive result is post-processed", site=cs,
                     key="G1|recursive-ret")
    producers, header = g3_struct_names(r, lib, R)
    path_fns, reserved_calls, uniq_guards = struct_name_path(r, lib, producers)
    hint_rules(r, lib, path_fns)
    hint_totality(r, lib, path_fns)
    name_cut_rule(r, lib, producers)
    shared_name_rule(r, lib, path_fns)
    if not struct_name_guards:
        return
    r.ob("G2.reserved-word-guard", "struct-name path", bool(reserved_calls),
         "struct identifiers pass %s" % cname(reserved_calls[0].node) if reserved_calls else
         "no reserved-word / prelude guard on the struct-name path (%s): `<self>` renders `pub struct Self`, elements named String/Vec/Option shadow the types used by sibling fields" % sorted(x.split("::")[-1] for x in path_fns),
         site=header[0].site if header else None, key="G2.reserved-word-guard|struct-name-path")
    r.ob("G2.uniqueness-guard", "struct-name path", bool(uniq_guards),
         "struct identifiers are reserved in a uniqueness list" if uniq_guards else
         "no enforcing uniqueness guard on the struct-name path (the name hints choose a trace length but give up on ties): siblings `a-b` and `a_b` render `pub struct RAB` twice",
         site=header[0].site if header else None, key="G2.uniqueness-guard|struct-name-path")
    r.trust("convert_string::to_valid_key yields a snake_case non-keyword identifier (dependency, scanned for panics/determinism only)")


import re as _re

FIELD_TYPES = ("{}", "String", "Option<{}>", "Option<String>", "Vec<{}>", "Vec<String>", "Option<Vec<{}>>", "Option<Vec<String>>")
GRAMMAR = {
    "field": _re.compile(r'^[ \t]*pub \{\}: (%s),\n$' % "|".join(_re.escape(x) for x in FIELD_TYPES)),
    "rename": _re.compile(r'^[ \t]*#\[serde\(rename = "\{\}"\)\]\n$'),
    "header": _re.compile(r'^pub struct \{\} \{\n$'),
    "derive": _re.compile(r'^#\[derive\(\{\}\)\]\n$'),
}


def template_grammar(r, R):
    """G0: every piece of text the renderer emits is one of the item/field/attribute templates of the output grammar,
    written out exactly (balanced brackets, separators, line ends), or a closing brace / blank line"""
    n = 0
    for e in R.emissions:
        if e.kind in ("append-acc", "child-structs", "value"):
            continue
        n += 1
        if e.template is not None:
            g = GRAMMAR.get(e.kind)
            ok = g is not None and bool(g.match(e.template))
            txt = e.template
        else:
            v = e.value
            txt = v[1] if v[0] == "const" and isinstance(v[1], str) else term_s(v)[:40]
            ok = v[0] == "const" and isinstance(v[1], str) and bool(_re.match(r'^(\}\n*|\n*)$', v[1])) and (e.kind != "closer" or v[1].startswith("}\n"))
        r.ob("G0.template-grammar", "%s: %r" % (R.body.name, txt), ok, "emitted text is a well-formed %s line" % e.kind if ok else
             "emitted text %r is not one of the output grammar's templates (field / rename / header / derive / closing brace)" % txt, site=e.site,
             key="G0|%s|%s" % (e.kind, txt))
    r.ob("G0.template-inventory", R.body.name, n >= 10, "%d textual emissions checked against the output grammar" % n, key="G0|inventory")


def map_coverage(r, lib, R):
    """I1/I2: the identifier map has an entry for every child and every attribute of the element (full traversal,
    unconditional insert), keyed the way the renderer looks it up"""
    from .common import normal_form, find_loop_of
    from .c16 import peel_iter, ORDER_ONLY
    mb = [x for x in lib.real_bodies() if x.name.endswith("identifier::Map::new")]
    if len(mb) != 1:
        return
    m = normal_form(lib, mb[0])
    b = R.body
    ins = [cs for cs in m.calls() if cname(cs.node) in ("std::collections::HashMap::insert", "std::collections::BTreeMap::insert")]

    def key_of(body, t):
        """(kind, stripped name term) of a (name, Type) key"""
        t = strip(t)
        if t[0] != "agg":
            return None, None
        kk = [strip(v, mir.VALUE_PRESERVING) for v in t[3].values()]
        kind = next((k[2] for k in kk if k[0] == "agg" and k[1].endswith("identifier::Type")), None)
        name = next((k for k in kk if not (k[0] == "agg" and k[1].endswith("identifier::Type"))), None)
        return kind, name

    def shape(t, item_next):
        """name term with the loop item abstracted: ('const', s) or a tuple of accessors applied to the item"""
        t = strip(t, mir.VALUE_PRESERVING)
        if t[0] == "const":
            return ("const", t[1])
        acc = []
        for _ in range(12):
            t = strip(t, mir.VALUE_PRESERVING)
            if t[0] == "call" and t[1] == "necessity::Necessity::inner_t" and t[2]:
                acc.append("inner_t")
                t = t[2][0]
            elif t[0] == "proj" and t[1][0] == "call" and len(t[1]) > 3 and t[1][1] == "std::iter::Iterator::next":
                fs = [e[3] for e in t[2] if e != "*" and e[0] == "f" and e[1] not in ("std::option::Option",)]
                return ("item", tuple(acc + fs)), t[1][3]
            elif t[0] == "proj":
                acc += [e[3] for e in t[2] if e != "*" and e[0] == "f"]
                t = t[1]
            else:
                break
        return ("other", term_s(t)[:40])

    stored = {}
    for cs in ins:
        kind, name = key_of(m, term_of(m, cs.node["args"][1]))
        if kind is None:
            continue
        sh = shape(name, None)
        lp = find_loop_of(m, cs.bb)
        if kind in ("ChildElement", "Attribute"):
            field = "children" if kind == "ChildElement" else "attributes"
            ok = False
            why = "the %s entry is not stored inside a loop" % kind
            if lp is not None and isinstance(sh, tuple) and len(sh) == 2 and isinstance(sh[0], tuple) and sh[0][0] == "item":
                nxt = sh[1]
                coll, adapters = peel_iter(term_of(m, nxt.node["args"][0]))
                fs = [e[3] for e in coll[2] if e != "*" and e[0] == "f"] if coll[0] == "proj" and coll[1] == ("arg", 1) else None
                g = guards_of(m, cs.bb, within=lp[1])
                adapters = [a for a in adapters if a not in ORDER_ONLY]     # reservation order only decides who gets a suffix
                ok = fs == [field] and not adapters and not g and nxt.bb in lp[1]
                why = "one entry per %s: the loop covers element.%s completely and stores unconditionally" % (kind, field) if ok else \
                    "the %s entries come from %s via %s under %s: some %s get no identifier" % (kind, fs, [a.split("::")[-1] for a in adapters], [guard_s(x) for x in g], field)
                stored[kind] = sh[0]
            r.ob("G1.map-covers-all", "%s: %s entries" % (mb[0].name, kind), ok, why, site=cs, key="G1|covers|%s" % kind)
        elif kind == "TextContent":
            stored[kind] = sh
    # the lookup function itself: the stored key is (the given name, the given kind), nothing transformed
    for gb in [x for x in lib.real_bodies() if x.name.endswith("identifier::Map::get_name")]:
        g = normal_form(lib, gb)
        gets = [cs for cs in g.calls() if cname(cs.node) in ("std::collections::HashMap::get", "std::collections::BTreeMap::get")]
        ok = len(gets) == 1
        why = "%d map lookups in get_name" % len(gets)
        if ok:
            k = strip(term_of(g, gets[0].node["args"][1]))
            parts = [strip(v, mir.VALUE_PRESERVING) for v in k[3].values()] if k[0] == "agg" else []
            ok = sorted(map(str, parts)) == sorted(map(str, [("arg", 2), ("arg", 3)])) and gets[0].node["dest"]["l"] == 0
            why = "get_name returns the entry stored under exactly (name, kind)" if ok else "get_name looks up %s and not (name, kind) as given" % term_s(k)[:70]
        r.ob("G1.lookup-is-exact", gb.name, ok, why, site=gets[0] if gets else mir.line_of(gb.span), key="G1|getname")
    # I2 key agreement with the renderer's lookups
    for cs in b.calls():
        if not cname(cs.node).endswith("identifier::Map::get_name"):
            continue
        k = strip(term_of(b, cs.node["args"][2]))
        kind = k[2] if k[0] == "agg" else None
        sh = shape(term_of(b, cs.node["args"][1]), None)
        looked = sh[0] if isinstance(sh, tuple) and len(sh) == 2 and isinstance(sh[0], tuple) else sh
        want = stored.get(kind)
        ok = want is not None and looked == want
        r.ob("G1.lookup-key-agrees", "%s: get_name(.., %s)" % (b.name, kind), ok, "looked up by the key the map stores (%s)" % (looked,) if ok else
             "the renderer looks up %s entries by %s, the map stores them under %s: the lookup misses and the unguarded raw name is emitted" % (kind, looked, want), site=cs,
             key="G1|keyagree|%s" % kind)


def g3_struct_names(r, lib, R):
    """G3: header slot and field-type slots are filled by the same producer over the same trace and hints; push/pop discipline
    of the trace.  -> (set of producer paths, header emissions)"""
    b = R.body
    # ---- G2: struct identifier slots
    header = [e for e in R.emissions if e.kind == "header"]
    type_slots = [(e, e.args[1][1]) for e in R.emissions if e.kind == "field" and len(e.args) == 2 and e.site.bb in R.child_loop["blocks"]]
    producers = set()
    sites = []
    for e in header:
        sites.append((e, e.args[0][1], "header"))
    for e, a in type_slots:
        sites.append((e, a, "field type"))
    for e, a, what in sites:
        srcs = _value_sources(b, strip(a, mir.VALUE_PRESERVING))
        calls = [s for s in srcs if s[0] == "call"]
        consts = [s for s in srcs if s[0] == "const"]
        # the producer is found by role: a method of Element taking the ancestor trace (a list of Strings) and the hint
        # table (a map to usize) and returning the name
        def is_producer(path):
            f = lib.fns.get(path) or next((v for k2, v in lib.fns.items() if mir._norm(k2) == path), {})
            ins = f.get("inputs", [])
            return f.get("impl_self", {}).get("adt") == "element::Element" and f.get("output", {}).get("adt") == "std::string::String" and \
                any(t.get("adt") in ("std::collections::HashMap", "std::collections::BTreeMap") and "usize" in t.get("s", "") for t in ins) and \
                any("std::string::String" in t.get("s", "") and ("[" in t.get("s", "") or "Vec<" in t.get("s", "")) for t in ins)
        okp = all(is_producer(s[1]) for s in calls) and len({s[1] for s in calls}) == 1 and bool(calls) and all(s[1] == "String" for s in consts) and \
            len(calls) + len(consts) == len(srcs)
        r.ob("G3.struct-name-producer", "%s: %s slot %r" % (b.name, what, e.template), okp,
             "struct identifier = <name producer>(element, trace, hints)%s" % (" or the literal String for text-only children" if consts else "") if okp else
             "struct identifier slot filled by %s" % [term_s(s)[:40] for s in srcs], site=e.site, key="G3|producer|%s|%s" % (what, e.template))
        for s in calls:
            producers.add(s[1])
    # same hints / same trace for header and type slots
    if header and type_slots:
        h = [s for s in _value_sources(b, strip(header[0].args[0][1], mir.VALUE_PRESERVING)) if s[0] == "call"]
        okg = True
        for e, a in type_slots:
            for s in [x for x in _value_sources(b, strip(a, mir.VALUE_PRESERVING)) if x[0] == "call"]:
                if not h or len(s[2]) < 3 or len(h[0][2]) < 3 or not (mir.same_place_term(s[2][1], h[0][2][1]) and mir.same_place_term(s[2][2], h[0][2][2])):
                    okg = False
                elif not _is_loop_child(s[2][0]):
                    okg = False
        r.ob("G3.same-trace-and-hints", b.name, okg, "a child's field type and the child's own header are expand_name over the same trace vector and hint table, applied to that child" if okg else
             "field-type slot and header slot use different trace/hint arguments", site=header[0].site, key="G3|same")
        # push/pop discipline of the trace around the type slot
        tr = strip(h[0][2][1]) if h else None
        pushes = [cs for cs in b.calls() if cname(cs.node) == "std::vec::Vec::push" and _same_root(b, cs.node["args"][0], R, 3)]
        pops = [cs for cs in b.calls() if cname(cs.node) == "std::vec::Vec::pop" and _same_root(b, cs.node["args"][0], R, 3)]
        in_loop_push = [p for p in pushes if p.bb in R.child_loop["blocks"]]
        in_loop_pop = [p for p in pops if p.bb in R.child_loop["blocks"]]
        rec = [e for e in R.emissions if e.kind == "child-structs"]
        okd = len(in_loop_push) == 1 and len(in_loop_pop) == 1 and len(pushes) == 2 and len(pops) == 2 and bool(rec)
        if okd:
            # the recursive rendering (which pushes the child's name itself) never runs with the child's entry still on the
            # trace: no path of one iteration leads from the push to the recursion without passing the pop
            rec_bb = rec[0].value[3].bb if rec[0].value[0] == "call" and len(rec[0].value) > 3 else rec[0].site.bb
            okd = rec_bb not in b.reach_from(in_loop_push[0].bb, avoid={in_loop_pop[0].bb, R.child_loop["header"]})
        if okd:
            pv = strip(term_of(b, in_loop_push[0].node["args"][1]))
            okd = pv[0] == "call" and pv[1].endswith("Element::formatted_name") and _is_loop_child(pv[2][0])
            gp = [guard_s(x) for x in guards_of(b, in_loop_push[0].bb, within=R.child_loop["blocks"])]
            gq = [guard_s(x) for x in guards_of(b, in_loop_pop[0].bb, within=R.child_loop["blocks"])]
            okd = okd and gp == gq
        # the element's own entry of the trace (pushed outside the child loop) is exactly its formatted name
        own_push = [p for p in pushes if p.bb not in R.child_loop["blocks"]]
        if len(own_push) == 1:
            ov = strip(term_of(b, own_push[0].node["args"][1]), mir.VALUE_PRESERVING)
            oko = ov[0] == "call" and ov[1].endswith("Element::formatted_name") and strip(ov[2][0]) == ("arg", R.self_arg)
            r.ob("G3.own-trace-entry", b.name, oko, "the element pushes exactly its own formatted name (the key of the hint table) onto the trace" if oko else
                 "the element's own trace entry is %s, not formatted_name(self): header and hint key no longer agree" % term_s(ov)[:60], site=own_push[0], key="G3|own-entry")
        r.ob("G3.trace-push-pop", b.name, okd, "the child's formatted name is pushed before its type slot and popped before the recursive rendering (which pushes it again): both see the same trace" if okd else
             "trace push/pop around the child type slot not balanced (pushes %d/%d, pops %d/%d)" % (len(in_loop_push), len(pushes), len(in_loop_pop), len(pops)),
             site=in_loop_push[0] if in_loop_push else header[0].site, key="G3|pushpop")
    return producers, header


def struct_name_path(r, lib, producers):
    """functions on the struct-name path and the guard calls found there"""
    # guards on the struct-name path: everything reachable from the producers and from the trace elements' producer
    path_fns = set()
    hint_builders = [p for p, f in lib.fns.items() if f.get("output", {}).get("adt") in ("std::collections::HashMap", "std::collections::BTreeMap") and
                     "usize" in f.get("output", {}).get("s", "") and p in lib.bodies]      # the function(s) building the hint table, whatever their name
    for p in list(producers) + ["formatted_name"] + hint_builders:
        for bd in lib.real_bodies():
            if mir._norm(bd.name).endswith(p.split("::")[-1]) or mir._norm(bd.name) == p or bd.name == p:
                path_fns |= lib.reachable_from([bd.name])
    reserved_calls = []
    uniq_guards = []
    for n in sorted(path_fns):
        bd = lib.bodies[n]
        for cs in bd.calls():
            if cname(cs.node) in RESERVED_GUARDS:
                reserved_calls.append(cs)
            if cname(cs.node) == "std::vec::Vec::push":
                g = guards_of(bd, cs.bb)
                if any(x[0] == "call" and x[1] in CONTAINS and x[3] is False for x in g):
                    uniq_guards.append(cs)
    r.count("functions on the struct-name path", len(path_fns))
    return path_fns, reserved_calls, uniq_guards


def _uniqueness_guard(lib, c, c0):
    PUSHERS = ("std::vec::Vec::push", "std::collections::HashSet::insert", "std::collections::BTreeSet::insert")
    pushes = [cs for cs in c.calls() if cname(cs.node) in PUSHERS and _is_reserved_list(c, cs.node["args"][0])]
    ok = len(pushes) == 1
    why = "%d pushes onto the reservation list" % len(pushes)
    if ok:
        p = pushes[0]
        g = guards_of(c, p.bb) + dominating_edge_guards(c, p.bb)
        pushed = strip(term_of(c, p.node["args"][1]), mir.VALUE_PRESERVING)
        # `candidates.find(|c| !reserved.contains(c)).expect(..)`: the value is the Some payload built on the hit edge
        # of the search loop; the guards of that edge are the guards of the value
        def some_sites(t):
            """the `Some(x)` definitions behind expect/unwrap of a search result (one per hit edge of the search loop(s))"""
            if t[0] == "call" and t[1] in ("std::option::Option::expect", "std::option::Option::unwrap") and t[2]:
                d0 = strip(t[2][0])
                if d0[0] == "local":
                    return [d for d in c.defs().get(d0[1], []) if d.si is not None and d.node["k"] == "assign" and d.node["rv"]["k"] == "agg" and d.node["rv"].get("variant") == "Some"]
            return []
        base_g = g
        alts = [(base_g + guards_of(c, ss.bb), strip(term_of(c, ss.node["rv"]["ops"][0]), mir.VALUE_PRESERVING)) for ss in some_sites(pushed)] or [(base_g, pushed)]
        ret0 = _returned_after(c, p)
        ret_alts = [strip(term_of(c, ss.node["rv"]["ops"][0]), mir.VALUE_PRESERVING) for ss in some_sites(ret0)] if ret0 is not None and some_sites(ret0) else [ret0]
        res = []
        for i, (g_i, pushed_i) in enumerate(alts):
            cont = [x for x in g_i if x[0] == "call" and x[3] is False and (x[1] in CONTAINS or _any_equals(lib, c, x))]
            same = False
            for x in cont:
                tested = strip(x[2][1]) if x[1] in CONTAINS else _any_needle(lib, c, x)
                if tested is not None and _same_var(tested, pushed_i):
                    if len(x) > 5 and pushed_i[0] == "local":
                        region = c.reach_from(x[5][1], avoid={x[5][0]})
                        redefs = [d for d in c.defs().get(pushed_i[1], []) if d.bb in region and p.bb in c.reach_from(d.bb)]
                        same = not redefs
                    else:
                        same = True
            ret_i = ret_alts[i] if len(ret_alts) == len(alts) else ret_alts[0]
            res.append((bool(cont), same, ret_i is not None and _same_var(ret_i, pushed_i)))
        ok = all(all(x) for x in res)
        why = "a name is reserved only on the `!reserved.contains(name)` edge and that same name is returned" if ok else \
            "reservation: guarded by !contains=%s of the pushed value=%s, returned value is the pushed one=%s" % (
                all(x[0] for x in res), all(x[1] for x in res), all(x[2] for x in res))
    return ok, why, (pushes[0] if pushes else mir.line_of(c0.span))


def _value_sources(b, t, depth=0):
    """possible definitions of a term that is a multiply-defined local (join of match arms)"""
    t = strip(t, mir.VALUE_PRESERVING)
    if t[0] != "local" or depth > 4:
        return [t]
    out = []
    for d in b.defs().get(t[1], []):
        if d.si is None:
            n = d.node
            if cname(n) in mir.VALUE_PRESERVING and n["args"]:
                out += _value_sources(b, strip(term_of(b, n["args"][0]), mir.VALUE_PRESERVING), depth + 1)
            else:
                out.append(("call", cname(n), [term_of(b, a) for a in n["args"]], d))
        elif d.node["k"] == "assign" and d.node["rv"]["k"] == "use":
            out += _value_sources(b, term_of(b, d.node["rv"]["op"]), depth + 1)
        elif d.node["k"] == "assign" and d.node["rv"]["k"] == "ref":
            out += _value_sources(b, term_of(b, d.node["rv"]["place"]), depth + 1)
        else:
            out.append(("unknown",))
    return out


OPT_DEFAULTING = ("std::option::Option::unwrap_or_else", "std::option::Option::unwrap_or", "std::option::Option::map_or", "std::option::Option::map_or_else",
                  "std::option::Option::unwrap_or_default")
OPT_VIEW = ("std::option::Option::cloned", "std::option::Option::copied", "std::option::Option::as_deref", "std::option::Option::as_ref", "std::option::Option::map")


def _is_get_name(s, kind, maps):
    s = strip(s)
    # Option combinators over the lookup: get_name(..).cloned().unwrap_or_else(|| fallback), .map_or(default, f)
    if s[0] == "call" and s[1] in OPT_DEFAULTING and s[2]:
        inner = strip(s[2][0])
        while inner[0] == "call" and inner[1] in OPT_VIEW and inner[2]:
            inner = strip(inner[2][0])
        if inner[0] == "call" and inner[1].endswith("identifier::Map::get_name"):
            k = strip(inner[2][2])
            return k[0] == "agg" and k[2] == kind
    # (get_name(&map, name, Kind)) as Some .0
    if s[0] == "proj" and s[1][0] == "call" and s[1][1].endswith("identifier::Map::get_name"):
        k = strip(s[1][2][2])
        return k[0] == "agg" and k[2] == kind
    return False


RESERVE_TYPES = ("std::vec::Vec<std::string::String>", "std::collections::HashSet<std::string::String>", "std::collections::BTreeSet<std::string::String>")


def _is_reserved_list(c, operand):
    """a field of `self` (parameter 1) holding a collection of Strings: the reservation list, whatever it is called"""
    t = strip(term_of(c, operand))
    if not (t[0] == "proj" and t[1] == ("arg", 1)):
        return False
    fs = [e for e in t[2] if e != "*" and e[0] == "f"]
    if len(fs) != 1:
        return False
    ty = mir.op_place(operand).get("ty", {}).get("s", "") if mir.op_place(operand) is not None else ""
    return any(x in ty for x in RESERVE_TYPES) or True


def _same_var(a, b_):
    a, b_ = strip(a, mir.VALUE_PRESERVING), strip(b_, mir.VALUE_PRESERVING)
    return a == b_ or mir.same_place_term(a, b_)


def _returned_after(c, push_site):
    for bb in c.reach_from(push_site.bb):
        for st in c.blocks[bb]["stmts"]:
            if st["k"] == "assign" and st["place"]["l"] == 0 and not st["place"]["p"] and st["rv"]["k"] == "use":
                return strip(term_of(c, st["rv"]["op"]), mir.VALUE_PRESERVING)
    return None


def _is_loop_child(t):
    for st in mir.subterms(strip(t)):
        if st[0] == "call" and st[1] == "std::iter::Iterator::next":
            return True
    return False


def _same_root(b, operand, R, arg):
    p = mir.op_place(operand)
    return p is not None and b.through_ref(p)["l"] == arg


MAP_KEYED = ("get", "get_mut", "insert", "contains_key", "entry", "remove")


def hint_rules(r, lib, path_fns):
    """H1/H2: the partial disambiguation mechanism for struct names (name hints) is keyed by the struct-name
    producer itself and tests distinctness over the whole set of candidates"""
    n_keys = 0
    for n in sorted(path_fns):
        bd = lib.bodies[n]
        for cs in bd.calls():
            nm = cname(cs.node)
            if not (nm.startswith("std::collections::HashMap::") or nm.startswith("std::collections::BTreeMap::")) or method(cs.node) not in MAP_KEYED:
                continue
            if len(cs.node["args"]) < 2:
                continue
            n_keys += 1
            org = bd.origins(cs.node["args"][1], transparent=lambda t: cname(t) in mir.VALUE_PRESERVING)
            from_producer = any(o[0] == "call" and cname(o[1].node).endswith("Element::formatted_name") for o in org)
            from_table = any(o[0] == "call" and cname(o[1].node) == "std::iter::Iterator::next" and "hash_map" in str(o[1].node["callee"].get("targs", "")) for o in org) or \
                any(o[0] == "call" and cname(o[1].node) == "std::iter::Iterator::next" for o in org)
            ok = from_producer or from_table
            r.ob("H2.hint-key-is-struct-name", "%s: %s" % (bd.name, nm), ok,
                 "the hint table is keyed by formatted_name() (the same function that produces the struct name)" if from_producer else
                 "key copied from the other hint table" if ok else
                 "the hint table is keyed by something other than the struct-name producer: elements whose tags differ but whose struct names coincide are not disambiguated against each other",
                 site=cs, key="H2|%s|%s|%s" % (bd.name, nm, "ok" if ok else "bad"))
    r.ob("H2.hint-key-inventory", "struct-name path", n_keys >= 2, "%d keyed accesses to the hint tables" % n_keys, key="H2|inventory")
    # H1: distinctness test over the whole candidate set
    found = False
    from .common import look_through_private
    from .. import desugar

    def sep_bodies():
        """bodies on the path that compute a length (-> usize), with their private helpers on the path looked through
        (iterator chains stay calls: the rules below look at collect / min / max)"""
        for n in sorted(path_fns):
            bd = lib.bodies[n]
            if bd.kind == "closure" or lib.fns.get(n, {}).get("output", {}).get("prim") != "usize":
                continue
            yield look_through_private(lib, bd, also=lambda cb, t: cb.name in path_fns and cb.kind != "closure")
    for bd in sep_bodies():
        for cs in bd.calls():
            if cname(cs.node) == "std::iter::Iterator::collect":
                targs = cs.node["callee"].get("targs", [])
                tgt = targs[1] if len(targs) > 1 else {}
                if tgt.get("adt") not in ("std::collections::HashSet", "std::collections::BTreeSet"):
                    continue
                # some early return must be guarded by len(set) == len(candidates)
                for s in bd.assigns():
                    if s.node["place"]["l"] != 0 or s.node["place"]["p"]:
                        continue
                    for g in guards_of(bd, s.bb):
                        if g[0] == "value" and g[2] is True:
                            t = g[1]
                            if t[0] == "binop" and t[1] == "Eq":
                                sides = [strip(t[2]), strip(t[3])]
                                has_set = any(x[0] == "call" and x[1].endswith("::len") and any(st[0] == "call" and len(st) > 3 and st[3] == cs for st in mir.subterms(x)) for x in sides)
                                src_coll = strip(term_of(bd, cs.node["args"][0]))
                                while src_coll[0] == "call" and src_coll[2] and src_coll[1] != "std::ops::Index::index":
                                    src_coll = strip(src_coll[2][0])
                                # as many members as candidates: len of the candidate list, or of the very collection the set was built from
                                has_all = any(x[0] == "call" and x[1].endswith("::len") and (any(st == ("arg", 1) for st in mir.subterms(x)) or
                                                                                             mir.same_place_term(strip(x[2][0]), src_coll)) for x in sides)
                                if has_set and has_all:
                                    found = True
    # H3: when no qualification length separates the candidates, the longest trace is used
    for bd in sep_bodies():
        if not any(cname(cs.node) == "std::iter::Iterator::collect" and (cs.node["callee"].get("targs", [{}, {}])[1:] or [{}])[0].get("adt") in
                   ("std::collections::HashSet", "std::collections::BTreeSet") for cs in bd.calls()):
            continue
        rets = [s for s in bd.sites() if (s.si is not None and s.node["k"] == "assign" and s.node["place"]["l"] == 0 and not s.node["place"]["p"]) or
                (s.si is None and s.node["k"] == "call" and s.node["dest"]["l"] == 0)]
        fallback = []
        for s in rets:
            t = strip(term_of(bd, s.node["rv"]["op"])) if s.si is not None and s.node["rv"]["k"] == "use" else (
                ("call", cname(s.node), [term_of(bd, a) for a in s.node["args"]], s) if s.si is None else ("?",))
            if t[0] == "binop" or (t[0] == "proj" and t[1][0] == "binop"):
                continue  # the early `i + 1` return (H1)
            fallback.append((s, t))
        okf = len(fallback) == 1
        why = "%d fallback results" % len(fallback)
        if okf:
            s0, t = fallback[0]
            names = [st[1] for st in mir.subterms(t) if st[0] == "call"]
            okf = "std::iter::Iterator::max" in names and any(x.endswith("::len") for x in _closure_calls(lib, t)) and any(st == ("arg", 1) for st in mir.subterms(t))
            why = "falls back to the maximum trace length over all candidates" if okf else "the fallback qualification length is %s, not the maximum over all candidates" % term_s(t)[:70]
        r.ob("H3.hint-fallback-is-longest", bd.name, okf, why, site=fallback[0][0] if fallback else mir.line_of(bd.span), key="H3|fallback")
    r.ob("H1.hint-distinctness-whole-set", "struct-name path", found,
         "a shorter qualification is accepted only when the set of all candidate names has as many members as there are candidates" if found else
         "no `all candidates pairwise distinct` test (set cardinality == number of candidates) guards the choice of the qualification length",
         key="H1|distinct")


def hint_totality(r, lib, path_fns):
    """H4: every element of the tree gets a name hint (a missing hint renders an empty struct name): the recursive
    collector records the element on every path and descends into all children unconditionally; the hint table gets an
    entry >= 1 for every collected name"""
    from .common import find_loop_of
    from .c16 import peel_iter, ORDER_ONLY
    MAPS = ("std::collections::HashMap", "std::collections::BTreeMap")
    REC = ("push", "push_back", "push_front", "insert", "extend")
    collectors = []
    for n in sorted(path_fns):
        bd = lib.bodies[n]
        if bd.kind == "closure" or not any(c.node["callee"].get("path") == bd.name for c in bd.calls()):
            continue
        f = lib.fns.get(n, {})
        tables = [i + 1 for i, t in enumerate(f.get("inputs", [])) if t.get("adt") in MAPS and t.get("s", "").startswith("&mut")]
        if tables and any(t.get("adt") == "element::Element" for t in f.get("inputs", [])):
            collectors.append((bd, tables[0]))
    r.ob("H4.collector", "struct-name path", len(collectors) == 1, "the recursive collector of (name, trace) pairs is %s" % collectors[0][0].name if len(collectors) == 1 else
         "expected one recursive collector filling a name table, found %s" % [c[0].name for c in collectors], key="H4|collector")
    for bd, tab in collectors:
        recs = set()
        for cs in bd.calls():
            if method(cs.node) in REC and cs.node["args"] and is_mut_ref(arg_ty(bd, cs.node["args"][0])):
                org = bd.origins(cs.node["args"][0], transparent=lambda t: True)
                if any(o[0] == "arg" and o[1] == tab for o in org):
                    recs.add(cs.bb)
        free = bd.reach_from(0, avoid=recs)
        ok = bool(recs) and not (set(bd.return_blocks()) & free)
        r.ob("H4.every-element-recorded", bd.name, ok, "every path through the collector adds the element's trace to the name table" if ok else
             "some path through the collector records nothing (%d recording sites): that element gets no hint and an empty struct name" % len(recs),
             site=mir.line_of(bd.span), key="H4|recorded")
        for cs in bd.calls():
            if cs.node["callee"].get("path") != bd.name:
                continue
            lp = find_loop_of(bd, cs.bb)
            okl = False
            why = "the recursive call is not inside a loop over the children"
            if lp is not None:
                nx = [c for c in bd.calls() if cname(c.node) == "std::iter::Iterator::next" and c.bb in lp[1] and find_loop_of(bd, c.bb)[0] == lp[0]]
                if len(nx) == 1:
                    coll, adapters = peel_iter(term_of(bd, nx[0].node["args"][0]))
                    fs = [e[3] for e in coll[2] if e != "*" and e[0] == "f"] if coll[0] == "proj" and coll[1][0] == "arg" else None
                    g = guards_of(bd, cs.bb, within=lp[1]) + guards_of(bd, lp[0])     # inside one iteration, and of the loop as a whole
                    adapters = [a for a in adapters if a not in ORDER_ONLY]     # the name table is a set of traces per name
                    okl = fs == ["children"] and not adapters and not g
                    why = "descends into every child unconditionally" if okl else "recursion over %s via %s under %s" % (fs, [a.rsplit("::", 1)[-1] for a in adapters], [guard_s(x) for x in g])
            r.ob("H4.descends-into-all-children", bd.name, okl, why, site=cs, key="H4|descend")
    # H5: the recorded trace is the path from the element up to the root, the element's own name first: the collector
    # pushes formatted_name(element) at one end on entry, records a copy, and pops the same end on exit; expand_name takes
    # its suffix from the renderer's root-first stack, so hint n must count from the element's end
    for bd, tab in collectors:
        f = lib.fns.get(bd.name, {})
        tr = [i + 1 for i, t in enumerate(f.get("inputs", [])) if t.get("s", "").startswith("&mut ") and t.get("adt") in ("std::collections::VecDeque", "std::vec::Vec")]
        ok = False
        why = "no trace parameter (a &mut VecDeque/Vec of names) found in the collector"
        if len(tr) == 1:
            ends = {"push_front": "front", "pop_front": "front", "push_back": "back", "pop_back": "back", "push": "back", "pop": "back", "insert": "?", "remove": "?"}
            pushes = [cs for cs in bd.calls() if method(cs.node) in ("push_front", "push_back", "push", "insert") and cs.node["args"] and strip(term_of(bd, cs.node["args"][0])) == ("arg", tr[0])]
            pops = [cs for cs in bd.calls() if method(cs.node) in ("pop_front", "pop_back", "pop", "remove") and cs.node["args"] and strip(term_of(bd, cs.node["args"][0])) == ("arg", tr[0])]
            ok = len(pushes) == 1 and len(pops) == 1
            why = "%d pushes / %d pops on the trace in the collector" % (len(pushes), len(pops))
            if ok:
                pv = strip(term_of(bd, pushes[0].node["args"][-1]), mir.VALUE_PRESERVING)
                own = pv[0] == "call" and pv[1].endswith("Element::formatted_name") and strip(pv[2][0])[0] == "arg"
                pe, qe = ends[method(pushes[0].node)], ends[method(pops[0].node)]
                is_deque = f["inputs"][tr[0] - 1].get("adt") == "std::collections::VecDeque"
                # nearest-first storage: a deque grown at the front.  (A Vec grown at the back stores root-first: then the
                # comparison of prefixes in the separating-length function would count from the root.)
                ok = own and pe == qe == ("front" if is_deque else "?") and not guards_of(bd, pushes[0].bb) and \
                    not (set(bd.return_blocks()) & bd.reach_from(pushes[0].bb, avoid={pops[0].bb}))
                why = "own formatted name pushed at the front on entry and popped from the front on every exit: recorded traces read element -> root" if ok else \
                    "trace discipline: pushes the own formatted name=%s, push end=%s, pop end=%s (expected front/front on a VecDeque), unconditional and balanced=%s" % (
                        own, pe, qe, not guards_of(bd, pushes[0].bb) and not (set(bd.return_blocks()) & bd.reach_from(pushes[0].bb, avoid={pops[0].bb})))
        r.ob("H5.trace-reads-element-to-root", bd.name, ok, why, site=mir.line_of(bd.span), key="H5|direction")
    # H6: the search for the separating length tries every candidate length 1..=shortest trace: the counting loop of the
    # function that holds the distinctness test runs over 0..min(len of the traces)
    for n in sorted(path_fns):
        bd = lib.bodies[n]
        if bd.kind == "closure" or not any(cname(cs.node) == "std::iter::Iterator::collect" and (cs.node["callee"].get("targs", [{}, {}])[1:] or [{}])[0].get("adt") in
                                           ("std::collections::HashSet", "std::collections::BTreeSet") for cs in bd.calls()):
            continue
        ret_blocks = {x.bb for x in bd.calls() if cname(x.node) == "std::iter::Iterator::collect" and (x.node["callee"].get("targs", [{}, {}])[1:] or [{}])[0].get("adt") in
                      ("std::collections::HashSet", "std::collections::BTreeSet")}     # the loop that holds the distinctness test
        for cs in bd.calls():
            if cname(cs.node) != "std::iter::Iterator::next":
                continue
            t = strip(term_of(bd, cs.node["args"][0]))
            if t[0] == "local":
                dd = [d for d in bd.defs().get(t[1], []) if d.si is not None and d.node["rv"]["k"] == "use"]
                if len(dd) == 1:
                    t = strip(term_of(bd, dd[0].node["rv"]["op"]))
            while t[0] == "call" and t[1] == "std::iter::IntoIterator::into_iter":
                t = strip(t[2][0])
            lp = find_loop_of(bd, cs.bb)
            if not (t[0] == "agg" and t[1] == "std::ops::Range") or lp is None or not (ret_blocks & lp[1]):
                continue        # only the counting loop around the distinctness test
            start, end = strip(t[3]["start"]), strip(t[3]["end"], mir.VALUE_PRESERVING)
            e = end
            if e[0] == "call" and e[1] in ("std::option::Option::unwrap_or", "std::option::Option::unwrap_or_default"):
                e = strip(e[2][0])
            is_min = e[0] == "call" and e[1] in ("std::iter::Iterator::min", "std::iter::Iterator::min_by_key") and any(st == ("arg", 1) for st in mir.subterms(e)) and \
                any(x.endswith("::len") for x in _closure_calls(lib, e))
            ok = start == ("const", 0) and is_min
            r.ob("H6.search-covers-every-length", bd.name, ok, "candidate lengths 1..=shortest trace are all tried (0..min len)" if ok else
                 "the counting loop runs over %s..%s, not 0..min(trace lengths): some separating length is never tried and the fallback (longest trace) over-qualifies" % (
                     term_s(start)[:20], term_s(end)[:60]), site=cs, key="H6|range")
    # the hint table itself
    from .common import normal_form
    for n in sorted(path_fns):
        out = lib.fns.get(n, {}).get("output", {})
        if not (out.get("adt") in MAPS and "usize" in out.get("s", "")):
            continue
        bd = normal_form(lib, lib.bodies[n], also=lambda cb, t: cb.name not in path_fns or cb.kind == "closure")
        ins = [cs for cs in bd.calls() if method(cs.node) == "insert" and cname(cs.node).startswith(MAPS) and "usize" in arg_ty(bd, cs.node["args"][0]).get("s", "")]
        loops = {}
        for cs in ins:
            lp = find_loop_of(bd, cs.bb)
            if lp is not None:
                loops.setdefault(lp[0], (lp, []))[1].append(cs)
        ok = len(loops) == 1
        why = "%d loops fill the hint table" % len(loops)
        site = ins[0] if ins else mir.line_of(bd.span)
        if ok:
            lp, sites = next(iter(loops.values()))
            nx = [c for c in bd.calls() if cname(c.node) == "std::iter::Iterator::next" and c.bb in lp[1] and find_loop_of(bd, c.bb)[0] == lp[0]]
            okn = False
            if len(nx) == 1:
                coll, adapters = peel_iter(term_of(bd, nx[0].node["args"][0]))
                while coll[0] == "call" and coll[1].rsplit("::", 1)[-1] in ("iter", "keys", "into_iter", "iter_mut") and coll[2]:
                    coll = strip(coll[2][0])
                okn = not adapters and (arg_ty(bd, {"copy": {"l": coll[1], "p": []}} if coll[0] == "local" else {}).get("adt") in MAPS or coll[0] in ("local", "call"))
                sw = mir.switch_enum(bd, bd.succs(nx[0].bb)[0])
                start = mir.variant_target(sw, bd, "Some") if sw else None
                blocks = {c.bb for c in sites}
                free = bd.reach_from(start, avoid=blocks) if start is not None else {lp[0]}
                every = lp[0] not in free and not any(x not in lp[1] for x in free)
            ok = okn and len(nx) == 1 and every
            why = "every collected name gets an entry (whole table traversed, an insert on every path of the loop body)" if ok else \
                "the hint table is not filled for every collected name (plain traversal=%s, insert on every path=%s)" % (okn, len(nx) == 1 and every)
        r.ob("H4.hint-for-every-name", bd.name, ok, why, site=site, key="H4|total")


def _closure_calls(lib, t):
    out = []
    for st in mir.subterms(t):
        if st[0] in ("fn", "agg") and isinstance(st[1], str) and st[1] in lib.bodies:
            out += [cname(c.node) for c in lib.bodies[st[1]].calls()]
        elif st[0] == "fn" and isinstance(st[1], str):
            out.append(mir._norm(st[1]))        # a function item used as the mapping function (e.g. VecDeque::len)
    return out


def _any_equals(lib, c, g):
    """guard `list.iter().any(|n| n == name)` on the reservation list, equivalent to contains(name)"""
    return g[1] == "std::iter::Iterator::any" and _any_needle(lib, c, g) is not None


def _any_needle(lib, c, g):
    if g[1] != "std::iter::Iterator::any" or len(g[2]) != 2:
        return None
    src = g[2][0]
    if not any(st[0] == "proj" and st[1] == ("arg", 1) for st in mir.subterms(src)):
        return None
    clo = strip(g[2][1])
    if clo[0] != "agg" or not isinstance(clo[1], str) or clo[1] not in lib.bodies:
        return None
    cb = lib.bodies[clo[1]]
    t = strip(term_of(cb, {"l": 0, "p": []}))
    if not (t[0] == "call" and t[1] == "std::cmp::PartialEq::eq" and len(t[2]) == 2):
        return None
    sides = [strip(x) for x in t[2]]
    item = [x for x in sides if x == ("arg", 2) or (x[0] == "proj" and x[1] == ("arg", 2))]
    cap = [x for x in sides if x[0] == "proj" and x[1] == ("arg", 1)]
    if len(item) == 1 and len(cap) == 1 and len(clo[3]) == 1:
        return strip(list(clo[3].values())[0], mir.VALUE_PRESERVING)
    return None


# ---- consumption of the hint (necessary for distinct struct names of equally named elements at different positions) ----
HINT_MAPS = ("std::collections::HashMap", "std::collections::BTreeMap")


def _term_alts(b, t):
    t = strip(t, mir.VALUE_PRESERVING)
    if t[0] == "local":
        a = mir._alternatives(b, t[1], 0, True, frozenset())
        if a:
            out = []
            for x in a:
                out += _term_alts(b, x) if strip(x, mir.VALUE_PRESERVING) != t else [strip(x, mir.VALUE_PRESERVING)]
            return out
    return [t]


def _is_own_hint(t, hints_arg):
    """t == *hints.get(&self.formatted_name()) (Some payload), possibly plus a constant (a longer suffix separates as well)"""
    t = strip(t, mir.VALUE_PRESERVING)
    if t[0] == "binop" and t[1] == "Add":
        a, c = strip(t[2]), strip(t[3])
        if c[0] == "const" and isinstance(c[1], int) and c[1] >= 0:
            return _is_own_hint(a, hints_arg)
        if a[0] == "const" and isinstance(a[1], int) and a[1] >= 0:
            return _is_own_hint(c, hints_arg)
        return False
    if t[0] != "proj":
        return False
    path = [e[1] if e[0] == "dc" else e[-1] for e in t[2] if e != "*"]
    base = strip(t[1])
    if path != ["Some", "0"] or not (base[0] == "call" and base[1].rsplit("::", 1)[-1] == "get" and base[1].startswith(HINT_MAPS) and len(base[2]) == 2):
        return False
    key = strip(base[2][1], mir.VALUE_PRESERVING)
    return strip(base[2][0]) == ("arg", hints_arg) and key[0] == "call" and key[1].endswith("Element::formatted_name") and strip(key[2][0]) == ("arg", 1)


def name_cut_rule(r, lib, producers):
    """the struct name is built from trace[len(trace) - hints[own formatted name] ..]: the hint counts entries from the own-name
    end of the trace (H5), so only a suffix of at least that length carries the distinction the hint was computed for.
    Separator and case of the concatenation are not constrained."""
    from .common import normal_form
    n = 0
    for path in sorted(producers):
        b0 = lib.bodies.get(path) or next((x for x in lib.real_bodies() if mir._norm(x.name) == path), None)
        if b0 is None:
            continue
        n += 1
        b = normal_form(lib, b0, also=lambda cb, t: not cb.name.endswith("formatted_name"))
        f = lib.fns.get(b0.name, {})
        trace_arg = next((i + 1 for i, t in enumerate(f.get("inputs", [])) if "std::string::String" in t.get("s", "") and t.get("adt") not in HINT_MAPS and
                          ("[" in t.get("s", "") or "Vec<" in t.get("s", ""))), None)
        hints_arg = next((i + 1 for i, t in enumerate(f.get("inputs", [])) if t.get("adt") in HINT_MAPS), None)
        results = []
        for s_ in b.sites():
            nd = s_.node
            if s_.si is not None and nd["k"] == "assign" and nd["place"]["l"] == 0 and not nd["place"]["p"] and nd["rv"]["k"] == "use":
                results += _term_alts(b, term_of(b, nd["rv"]["op"]))
            elif s_.si is None and nd["k"] == "call" and nd["dest"]["l"] == 0 and not nd["dest"]["p"]:
                results.append(("call", cname(nd), [term_of(b, a) for a in nd["args"]], s_))
        cuts, problems = 0, []
        for t in results:
            t = strip(t, mir.VALUE_PRESERVING)
            if (t[0] == "call" and t[1] in ("std::string::String::new", "std::default::Default::default")) or t == ("const", ""):
                continue        # no hint stored: H4 shows that this does not happen for an element of the tree
            if not (t[0] == "call" and t[1].rsplit("::", 1)[-1] in ("join", "concat") and t[2]):
                problems.append("a result is %s, not a concatenation of trace entries" % term_s(t)[:50])
                continue
            sl = strip(t[2][0])
            if not (sl[0] == "call" and sl[1] == "std::ops::Index::index" and strip(sl[2][0]) == ("arg", trace_arg)):
                problems.append("the concatenated slice is %s, not a slice of the trace parameter" % term_s(sl)[:50])
                continue
            rg = strip(sl[2][1])
            if not (rg[0] == "agg" and rg[1] == "std::ops::RangeFrom"):
                problems.append("the slice is `%s`, not a suffix `trace[start..]`: the hint counts from the own name, the last entry" % (rg[1] if rg[0] == "agg" else term_s(rg)[:30]))
                continue
            start = strip(rg[3]["start"])
            ln = nn = None
            if start[0] == "call" and start[1] in ("core::num::saturating_sub", "core::num::checked_sub", "core::num::wrapping_sub") and len(start[2]) == 2:
                ln, nn = strip(start[2][0]), strip(start[2][1])
            elif start[0] == "binop" and start[1] == "Sub":
                ln, nn = strip(start[2]), strip(start[3])
            ok_start = ln is not None and ln[0] == "call" and ln[1].rsplit("::", 1)[-1] == "len" and strip(ln[2][0]) == ("arg", trace_arg) and _is_own_hint(nn, hints_arg)
            if not ok_start:
                problems.append("the suffix does not start at len(trace) - hints[own formatted name] (start = %s)" % term_s(start)[:70])
                continue
            cuts += 1
        ok = cuts >= 1 and not problems and trace_arg is not None and hints_arg is not None
        r.ob("G3.name-cut-from-own-end", b0.name, ok,
             "name = the last hints[own name] (or more) entries of the ancestor trace, or empty without a hint" if ok else
             ("; ".join(problems) or "no concatenation of a trace suffix found"), site=mir.line_of(b0.span), key="G3|cut|%s" % b0.name)
    r.ob("G3.name-cut-inventory", "struct-name path", n >= 1, "%d struct-name producer(s) inspected" % n, key="G3|cut-inventory")


def shared_name_rule(r, lib, path_fns):
    """H7: in the hint table, every stored value that is not the separating-length computation is stored under a test
    that implies the bucket holds at most one trace.  (What a name collected once gets is not constrained.)"""
    from .common import find_loop_of, normal_form
    found = 0
    for n in sorted(path_fns):
        out = lib.fns.get(n, {}).get("output", {})
        if not (out.get("adt") in HINT_MAPS and "usize" in out.get("s", "")):
            continue
        found += 1
        bd = normal_form(lib, lib.bodies[n], also=lambda cb, t: cb.name not in path_fns or cb.kind == "closure")
        ins = [cs for cs in bd.calls() if method(cs.node) == "insert" and cname(cs.node).startswith(HINT_MAPS) and "usize" in arg_ty(bd, cs.node["args"][0]).get("s", "")]
        pairs = []      # (value term, guards, site)
        for cs in ins:
            lp = find_loop_of(bd, cs.bb)
            within = lp[1] if lp else None
            v = strip(term_of(bd, cs.node["args"][2]), mir.VALUE_PRESERVING)
            if v[0] == "local":
                for d in bd.defs().get(v[1], []):
                    if d.si is None:
                        pairs.append((("call", cname(d.node), [term_of(bd, a) for a in d.node["args"]], d), guards_of(bd, d.bb, within=within), d))
                    elif d.node["k"] == "assign" and d.node["rv"]["k"] == "use" and not d.node["place"]["p"]:
                        pairs.append((strip(term_of(bd, d.node["rv"]["op"]), mir.VALUE_PRESERVING), guards_of(bd, d.bb, within=within), d))
            else:
                pairs.append((v, guards_of(bd, cs.bb, within=within), cs))

        def at_most_one(g):
            """some guard among g implies len(bucket) <= 1"""
            for x in g:
                if not (x[0] == "value" and x[1][0] == "binop"):
                    continue
                op, a, c, truth = x[1][1], strip(x[1][2]), strip(x[1][3]), x[2]

                def is_len(l_):
                    return (l_[0] == "call" and l_[1].rsplit("::", 1)[-1] == "len") or (l_[0] == "unop" and l_[1] == "PtrMetadata")
                if is_len(c) and a[0] == "const":
                    a, c = c, a
                    op = {"Lt": "Gt", "Gt": "Lt", "Le": "Ge", "Ge": "Le"}.get(op, op)
                if not (is_len(a) and c[0] == "const" and isinstance(c[1], int)):
                    continue
                k = c[1]
                if not truth:
                    op = {"Eq": "Ne", "Ne": "Eq", "Lt": "Ge", "Ge": "Lt", "Gt": "Le", "Le": "Gt"}[op] if op in ("Eq", "Ne", "Lt", "Ge", "Gt", "Le") else None
                if (op == "Eq" and k <= 1) or (op == "Lt" and k <= 2) or (op == "Le" and k <= 1):
                    return True
            return False
        # the separating-length computation: a call into the struct-name path (or its inlined result); anything that is a
        # constant or does not depend on the bucket is a shortcut
        def is_shortcut(v):
            return v[0] == "const" or not any(s[0] in ("call", "proj", "local", "arg") for s in mir.subterms(v))
        for v, g, s_ in pairs:       # every definition of a stored value, not only a literal at the insert itself
            if v[0] == "const":
                okv = isinstance(v[1], int) and v[1] >= 1
                r.ob("H4.hint-at-least-one", bd.name, okv, "constant hint %r keeps at least the element's own name" % (v[1],) if okv else
                     "constant hint %r: expand_name would take no trace segment and render an empty struct name" % (v[1],), site=s_, key="H4|const|%s" % (v[1],))
        def switch_at_most_one(site):
            """`match bucket.len() { 1 => .., _ => .. }`: the block is reached only over an edge of a switch on the length
            itself that is taken for the values 0 and/or 1 only"""
            for (a, succ) in bd.transitive_control_deps(site.bb):
                tt = bd.blocks[a]["term"]
                if tt["k"] != "switch":
                    continue
                c = strip(term_of(bd, tt["op"]), mir.VALUE_PRESERVING)
                if not ((c[0] == "call" and c[1].rsplit("::", 1)[-1] == "len") or (c[0] == "unop" and c[1] == "PtrMetadata")):
                    continue
                vals = [int(v) for v, t in tt["targets"] if t == succ]
                if vals and tt.get("otherwise") != succ and all(v in (0, 1) for v in vals):
                    return True
            return False
        bad = [(v, g, s_) for v, g, s_ in pairs if is_shortcut(v) and not at_most_one(g) and not switch_at_most_one(s_)]
        ok = bool(pairs) and not bad
        r.ob("H7.shared-name-gets-computed-length", bd.name, ok,
             "%d stored hint value(s): every constant is stored only for a bucket of at most one trace, names collected at several positions get the computed separating length" % len(pairs) if ok else
             ("a constant hint is stored for names collected at several positions: %s" % [(term_s(v)[:30], [guard_s(x) for x in g][:2]) for v, g, _ in bad][:3] if bad else "no stored hint value found"),
             site=(bad or pairs or [(None, None, mir.line_of(bd.span))])[0][2], key="H7|shared")
    r.ob("H7.hint-table", "struct-name path", found == 1, "%d function(s) building the hint table" % found, key="H7|inventory")
