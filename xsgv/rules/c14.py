"""C14 - struct names are readable (static part: the structural clauses of the naming mechanism)."""
from .. import mir
from ..mir import strip, term_of, term_s
from . import c04, c09, renderer
from .common import arg_ty, cname, find_loop_of, method, normal_form
from .pm import guards_of, guard_s

EXPLANATION = (
    "NOT decided: the string values themselves (PascalCase form = convert_string, a dependency), that qualification is used only "
    "when needed for names that occur at several positions (minimality of the hint), the optional disambiguating suffix. Decided - "
    "the clauses that are visible in the shape of the naming mechanism, each a necessary condition of the property: (N1) the first "
    "struct emitted is the one of the element rendered first (root), child structs follow (R9.1 emission order); (N2) header slot "
    "and field-type slot of a child are the same producer over the same trace and hint table, and the trace is the stack of the "
    "ancestors' formatted names in nesting order ending with the element's own (G3); (N3) the producer returns the concatenation of "
    "a *suffix* of that trace - own name last, nearest ancestors before it, contiguous - whose length is the hint stored under the "
    "element's own formatted name, or nothing when there is no hint; (N4) a name that was collected exactly once gets the hint 1, "
    "i.e. no ancestor qualification; (N5) every element gets a hint >= 1, keyed by the producer of the name itself (H2, H4); "
    "(N6) the recorded traces read element -> root (own name pushed/popped at the front of the deque, H5) so the hint counts from "
    "the end the producer cuts its suffix from, and the search for the separating length tries every length up to the shortest "
    "trace (H6).")

CONCAT = ("std::slice::join", "alloc::slice::join", "std::slice::concat", "alloc::slice::concat", "alloc::str::join", "alloc::str::concat")
EMPTY = ("std::string::String::new", "std::default::Default::default")
MAPS = ("std::collections::HashMap", "std::collections::BTreeMap")


def run(ctx):
    r = ctx.run
    r.explanation = EXPLANATION
    lib = ctx.lib
    R = renderer.Renderer(lib)
    r.ob("A6.renderer-model", "library", R.ok, "renderer recognised" if R.ok else "renderer shape not recognised: %s" % R.problems, key="A6.model")
    if not R.ok:
        return
    c09.order_rules(r, R)                                   # N1
    producers, header = c04.g3_struct_names(r, lib, R)      # N2
    path_fns, _, _ = c04.struct_name_path(r, lib, producers)
    c04.hint_rules(r, lib, path_fns)                        # N5 (H1-H3: key = formatted name, distinctness test, fallback)
    c04.hint_totality(r, lib, path_fns)                     # N5 (H4)
    suffix_rule(r, lib, producers)                          # N3
    single_position_rule(r, lib, path_fns)                  # N4
    r.trust("convert_string::to_pascal_case yields the PascalCase form of a name (dependency)")
    r.assume("`only when needed` for names that occur at several positions (the minimal separating trace length) is not decided statically")


def _alts(b, t):
    t = strip(t, mir.VALUE_PRESERVING)
    if t[0] == "local":
        a = mir._alternatives(b, t[1], 0, True, frozenset())
        if a:
            out = []
            for x in a:
                out += _alts(b, x) if strip(x, mir.VALUE_PRESERVING) != t else [strip(x, mir.VALUE_PRESERVING)]
            return out
    return [t]


def suffix_rule(r, lib, producers):
    """N3: name = concat(trace[len(trace) - hint ..]) with hint = hints[formatted_name(self)]"""
    n = 0
    for path in sorted(producers):
        b0 = lib.bodies.get(path) or next((x for x in lib.real_bodies() if mir._norm(x.name) == path), None)
        if b0 is None:
            continue
        n += 1
        b = normal_form(lib, b0, also=lambda cb, t: not cb.name.endswith("formatted_name"))
        f = lib.fns.get(b0.name, {})
        trace_arg = next((i + 1 for i, t in enumerate(f.get("inputs", [])) if "std::string::String" in t.get("s", "") and t.get("adt") not in MAPS and
                          ("[" in t.get("s", "") or "Vec<" in t.get("s", ""))), None)
        hints_arg = next((i + 1 for i, t in enumerate(f.get("inputs", [])) if t.get("adt") in MAPS), None)
        results = []
        for s_ in b.sites():
            nd = s_.node
            if s_.si is not None and nd["k"] == "assign" and nd["place"]["l"] == 0 and not nd["place"]["p"] and nd["rv"]["k"] == "use":
                results += _alts(b, term_of(b, nd["rv"]["op"]))
            elif s_.si is None and nd["k"] == "call" and nd["dest"]["l"] == 0 and not nd["dest"]["p"]:
                results.append(("call", cname(nd), [term_of(b, a) for a in nd["args"]], s_))
        concats, problems = 0, []
        for t in results:
            t = strip(t, mir.VALUE_PRESERVING)
            if (t[0] == "call" and t[1] in EMPTY) or t == ("const", ""):
                continue
            if not (t[0] == "call" and t[1].rsplit("::", 1)[-1] in ("join", "concat") and t[2]):
                problems.append("a result is %s, not a concatenation of trace entries" % term_s(t)[:50])
                continue
            if t[1].endswith("join") and (len(t[2]) < 2 or strip(t[2][1]) != ("const", "")):
                problems.append("the trace entries are joined with a separator")
                continue
            sl = strip(t[2][0])
            if not (sl[0] == "call" and sl[1] == "std::ops::Index::index" and strip(sl[2][0]) == ("arg", trace_arg)):
                problems.append("the concatenated slice is %s, not a slice of the trace parameter" % term_s(sl)[:50])
                continue
            rg = strip(sl[2][1])
            if not (rg[0] == "agg" and rg[1] == "std::ops::RangeFrom"):
                problems.append("the slice is `%s`, not a suffix `trace[start..]`: the nearest ancestors and the own name come last" % (rg[1] if rg[0] == "agg" else term_s(rg)[:30]))
                continue
            start = strip(rg[3]["start"])
            ok_start = False
            if start[0] == "call" and start[1] in ("core::num::saturating_sub", "core::num::checked_sub", "core::num::wrapping_sub") and len(start[2]) == 2:
                ln, nn = strip(start[2][0]), strip(start[2][1])
                ok_len = ln[0] == "call" and ln[1].rsplit("::", 1)[-1] == "len" and strip(ln[2][0]) == ("arg", trace_arg)
                ok_n = _is_own_hint(nn, hints_arg)
                ok_start = ok_len and ok_n
            elif start[0] == "binop" and start[1] == "Sub":
                ln, nn = strip(start[2]), strip(start[3])
                ok_start = ln[0] == "call" and ln[1].rsplit("::", 1)[-1] == "len" and strip(ln[2][0]) == ("arg", trace_arg) and _is_own_hint(nn, hints_arg)
            if not ok_start:
                problems.append("the suffix does not start at len(trace) - hints[own formatted name] (start = %s)" % term_s(start)[:70])
                continue
            concats += 1
        ok = concats >= 1 and not problems and trace_arg is not None and hints_arg is not None
        r.ob("N3.name-is-suffix-of-ancestor-trace", b0.name, ok,
             "name = concatenation of the last hints[own name] entries of the ancestor trace (own name last), or empty without a hint" if ok else
             ("; ".join(problems) or "no concatenation of a trace suffix found"), site=mir.line_of(b0.span), key="N3|suffix|%s" % b0.name)
    r.ob("N3.producer-inventory", "struct-name path", n >= 1, "%d struct-name producer(s) inspected" % n, key="N3|inventory")


def _is_own_hint(t, hints_arg):
    """t == *hints.get(&self.formatted_name()) (Some payload)"""
    t = strip(t, mir.VALUE_PRESERVING)
    if t[0] != "proj":
        return False
    path = [e[1] if e[0] == "dc" else e[-1] for e in t[2] if e != "*"]
    base = strip(t[1])
    if path != ["Some", "0"] or not (base[0] == "call" and base[1].rsplit("::", 1)[-1] == "get" and base[1].startswith(MAPS) and len(base[2]) == 2):
        return False
    key = strip(base[2][1], mir.VALUE_PRESERVING)
    return strip(base[2][0]) == ("arg", hints_arg) and key[0] == "call" and key[1].endswith("Element::formatted_name") and strip(key[2][0]) == ("arg", 1)


def single_position_rule(r, lib, path_fns):
    """N4: in the hint table, a name whose bucket holds exactly one trace gets the constant 1"""
    found = 0
    for n in sorted(path_fns):
        out = lib.fns.get(n, {}).get("output", {})
        if not (out.get("adt") in MAPS and "usize" in out.get("s", "")):
            continue
        found += 1
        bd = normal_form(lib, lib.bodies[n], also=lambda cb, t: cb.name not in path_fns or cb.kind == "closure")
        ins = [cs for cs in bd.calls() if method(cs.node) == "insert" and cname(cs.node).startswith(MAPS) and "usize" in arg_ty(bd, cs.node["args"][0]).get("s", "")]
        pairs = []      # (value term, guards, site)
        for cs in ins:
            lp = find_loop_of(bd, cs.bb)
            within = lp[1] if lp else None
            v = strip(term_of(bd, cs.node["args"][2]), mir.VALUE_PRESERVING)
            if v[0] == "local":
                for d in bd.defs().get(v[1], []):
                    if d.si is None:
                        pairs.append((("call", cname(d.node), [term_of(bd, a) for a in d.node["args"]], d), guards_of(bd, d.bb, within=within), d))
                    elif d.node["k"] == "assign" and d.node["rv"]["k"] == "use" and not d.node["place"]["p"]:
                        pairs.append((strip(term_of(bd, d.node["rv"]["op"]), mir.VALUE_PRESERVING), guards_of(bd, d.bb, within=within), d))
            else:
                pairs.append((v, guards_of(bd, cs.bb, within=within), cs))

        def single_test(g):
            """truth of the guard `len(bucket) == 1` among g, or None"""
            for x in g:
                if x[0] == "value" and x[1][0] == "binop" and x[1][1] in ("Eq", "Ne"):
                    a, c = strip(x[1][2]), strip(x[1][3])
                    for l_, k_ in ((a, c), (c, a)):
                        is_len = (l_[0] == "call" and l_[1].rsplit("::", 1)[-1] == "len") or (l_[0] == "unop" and l_[1] == "PtrMetadata")
                        if is_len and k_ == ("const", 1):
                            return x[2] == (x[1][1] == "Eq")
            return None
        ones = [(v, g, s_) for v, g, s_ in pairs if v == ("const", 1)]
        others = [(v, g, s_) for v, g, s_ in pairs if v != ("const", 1)]
        if not ones and others and all(single_test(g) is None for _, g, _ in others):
            # no shortcut at all: every hint is the computed separating length; that it is 1 for a single trace is a
            # statement about that computation, which is not decided here
            r.ob("N4.single-position-unqualified", bd.name, True, "no special case for names collected once: their hint is the computed separating length (not decided further)",
                 site=others[0][2], key="N4|single", nontrivial=False)
            continue
        ok = bool(ones) and all(single_test(g) is True for _, g, _ in ones) and all(single_test(g) is False for _, g, _ in others)
        r.ob("N4.single-position-unqualified", bd.name, ok,
             "a name collected exactly once gets the hint 1 (its own name only); other names get the computed separating length" if ok else
             "the hint of a name collected once is not the constant 1 under `bucket.len() == 1` (values: %s)" % [(term_s(v)[:30], [guard_s(x) for x in g][:2]) for v, g, _ in pairs][:3],
             site=(ones or pairs or [(None, None, mir.line_of(bd.span))])[0][2], key="N4|single")
    r.ob("N4.hint-table", "struct-name path", found == 1, "%d function(s) building the hint table" % found, key="N4|inventory")
