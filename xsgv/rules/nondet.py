"""A1: nondeterminism sources (hash iteration order, addresses, clock, environment,
threads, shared mutable state) and their discharge."""
import re

from .. import mir
from .common import (HASH_ADTS, SORTED_ADTS, cname, find_loop_of, is_hash_container, is_mut_ref,
                     loop_exits, mentions_hash_iter, method, norm, self_adt, self_ty, arg_ty)

# methods on a hash container that do not expose iteration order
LOOKUP = {"new", "with_capacity", "with_hasher", "with_capacity_and_hasher", "default", "insert", "get",
          "get_mut", "get_key_value", "contains_key", "contains", "len", "is_empty", "remove", "remove_entry",
          "entry", "clear", "reserve", "shrink_to_fit", "capacity", "take", "replace", "get_or_insert_with",
          "is_subset", "is_superset", "is_disjoint", "eq", "ne", "clone", "clone_from", "index", "try_insert",
          "hasher", "try_reserve", "shrink_to", "get_many_mut", "get_disjoint_mut"}
ITER_CREATORS = {"iter", "iter_mut", "keys", "values", "values_mut", "into_iter", "drain", "into_keys",
                 "into_values", "difference", "intersection", "symmetric_difference", "union"}
TRAVERSAL = {"retain", "extract_if", "fmt"}
LAZY_ADAPTERS = {"map", "filter", "cloned", "copied", "filter_map", "by_ref", "inspect", "flat_map", "flatten",
                 "into_iter", "chain", "map_while"}
ORDER_INSENSITIVE = {"count", "min", "max", "min_by_key", "max_by_key", "min_by", "max_by", "sum", "product",
                     "all", "any", "len", "size_hint", "is_empty"}
COLLECTORS = {"collect", "from_iter", "extend"}

NONDET_CALL_RE = re.compile(
    r"^std::time::|^std::env::|^std::process::id$|^std::thread::|^std::hash::RandomState|^std::collections::hash_map::RandomState"
    r"|^std::hash::random::|^std::fs::read_dir|^rand|^getrandom|^std::random|::as_ptr$|::addr$|::expose_provenance$"
    r"|^std::fmt::Pointer::fmt$|new_pointer$|^std::ptr::from_ref$|^std::ptr::addr_of|^std::any::type_name|^std::any::TypeId"
    r"|^std::net::|^std::os::|^std::fs::|^std::io::stdin|^std::alloc::|^std::backtrace::|^std::panic::Location")
# as_ptr & co are only a source if the address is turned into an integer; the cast scan
# below catches that, so they are reported as 'addr' only together with a cast.
ADDR_ONLY = re.compile(r"::as_ptr$|::addr$|^std::ptr::from_ref$|^std::ptr::addr_of")
INTERIOR = re.compile(r"\bstd::cell::(Cell|RefCell|UnsafeCell|OnceCell|LazyCell)\b|\bstd::sync::(Mutex|RwLock|OnceLock|LazyLock|Once|Condvar|mpsc)\b"
                      r"|\bstd::sync::atomic::|\bstd::rc::Rc\b|\bstd::sync::Arc\b")


def closure_pure(body, operand):
    """a closure argument is pure if it captures nothing by unique reference"""
    ty = arg_ty(body, operand)
    clo = ty.get("closure")
    if not clo:
        return True  # fn items / non closures: judged by the caller's whitelist
    p = mir.op_place(operand)
    if p is None:
        return True  # zero-sized closure constant: captures nothing
    for s in body.defs().get(p["l"], []):
        if s.si is not None and s.node["k"] == "assign" and s.node["rv"]["k"] == "agg":
            for o in s.node["rv"]["ops"]:
                if is_mut_ref(arg_ty(body, o)):
                    return False
    cb = body.crate.bodies.get(clo)
    if cb is not None:
        for l in cb.locals[1:2]:
            pass
    return True


def _tracked_locals(body, start_local):
    """locals that hold the iterator value created into start_local (moves/copies and identity conversions)"""
    tracked = {start_local}
    changed = True
    while changed:
        changed = False
        for s in body.assigns():
            n = s.node
            if n["place"]["p"]:
                continue
            rv = n["rv"]
            if rv["k"] == "use":
                p = mir.op_place(rv["op"])
                if p is not None and not p["p"] and p["l"] in tracked and n["place"]["l"] not in tracked:
                    tracked.add(n["place"]["l"])
                    changed = True
    return tracked


def check_hash_iteration(run, crate, body, create_site, props_rule="A1.hash-iter"):
    """classify how the hash-ordered iterator created at `create_site` is consumed"""
    results = []  # (ok, why, site)
    t = create_site.node
    work = [t["dest"]["l"]]
    seen_vals = set()
    consumers = 0
    while work:
        start = work.pop()
        if start in seen_vals:
            continue
        seen_vals.add(start)
        tracked = _tracked_locals(body, start)
        for cs in body.calls():
            ct = cs.node
            if cs == create_site:
                continue
            uses = False
            for a in ct["args"]:
                p = mir.op_place(a)
                if p is None:
                    continue
                cp = body.through_ref(p)
                if cp["l"] in tracked and all(e == "deref" for e in cp["p"]):
                    uses = True
            if not uses:
                continue
            consumers += 1
            m = method(ct)
            name = cname(ct)
            if m in LAZY_ADAPTERS and (name.startswith("std::iter::") or m == "into_iter"):
                impure = [a for a in ct["args"][1:] if not closure_pure(body, a)]
                if impure:
                    results.append((False, "adapter `%s` over a hash-ordered iterator is given a closure that captures by &mut" % m, cs))
                else:
                    work.append(ct["dest"]["l"])
            elif m == "next" and name.startswith("std::iter::"):
                results.extend(_check_loop(run, crate, body, cs, tracked))
            elif m in ORDER_INSENSITIVE:
                impure = [a for a in ct["args"][1:] if not closure_pure(body, a)]
                results.append((not impure, "consumed by order-insensitive reduction `%s`" % m, cs))
            elif m in COLLECTORS:
                dst = ct["dest"].get("ty", {})
                tgt = self_ty(ct) if m in ("from_iter", "extend") else dst
                # collect::<B>: B is the declared generic argument
                if m == "collect":
                    targs = ct["callee"].get("targs", [])
                    tgt = targs[1] if len(targs) > 1 else dst
                ok = tgt.get("adt") in HASH_ADTS + SORTED_ADTS
                results.append((ok, "collected into %s (%s)" % (tgt.get("s"), "order-free container" if ok else "ORDER-SENSITIVE container"), cs))
            elif m in ("drop", "drop_in_place"):
                pass
            else:
                results.append((False, "hash-ordered iterator handed to `%s`, which is not known to be order-insensitive" % name, cs))
    if consumers == 0:
        results.append((True, "iterator is created but never consumed", create_site))
    return results


def _check_loop(run, crate, body, next_site, tracked):
    res = []
    lp = find_loop_of(body, next_site.bb)
    if lp is None:
        return [(False, "`next()` on a hash-ordered iterator outside a loop selects an arbitrary element", next_site)]
    header, blocks = lp
    # the block that tests the Option returned by next()
    test_bb = body.succs(next_site.bb)[0] if body.succs(next_site.bb) else None
    for (a, b) in loop_exits(body, blocks):
        if a != test_bb:
            res.append((False, "hash-ordered loop can be left early from bb%d (item-dependent exit)" % a, mir.Site(body, a, None)))
    loop_locals_defined_inside = set()
    for bb in blocks:
        blk = body.blocks[bb]
        for st in blk["stmts"]:
            if st["k"] == "assign" and not st["place"]["p"]:
                loop_locals_defined_inside.add(st["place"]["l"])
        if blk["term"]["k"] == "call":
            loop_locals_defined_inside.add(blk["term"]["dest"]["l"])
    outside = body.reachable() - blocks
    read_outside = set()
    for bb in outside:
        for si in list(range(len(body.blocks[bb]["stmts"]))) + [None]:
            for p in mir.site_reads(mir.Site(body, bb, si)):
                read_outside.add(body.canon(p)["l"])
    for bb in sorted(blocks):
        blk = body.blocks[bb]
        t = blk["term"]
        if t["k"] == "call":
            cs = mir.Site(body, bb, None)
            if cs == next_site:
                continue
            for a in t["args"]:
                ty = arg_ty(body, a)
                if not is_mut_ref(ty):
                    continue
                p = mir.op_place(a)
                base = body.through_ref(p) if p is not None else None
                if base is not None and base["l"] in tracked:
                    continue
                if ty.get("adt") in HASH_ADTS + SORTED_ADTS:
                    continue
                res.append((False, "loop over a hash-ordered iterator calls `%s` with a unique reference to %s: the effect order follows the hash order" % (
                    cname(t) or "?", ty.get("s")), cs))
        for si, st in enumerate(blk["stmts"]):
            if st["k"] != "assign":
                continue
            pl = body.canon(st["place"])
            l = pl["l"]
            if body.is_drop_flag(l):
                continue
            escapes = (l in read_outside) or (1 <= l <= body.arg_count) or l == 0
            if not escapes:
                continue
            # value assigned must not depend on the item: accept constants only
            rv = st["rv"]
            if rv["k"] == "use" and "const" in rv["op"]:
                continue
            res.append((False, "loop over a hash-ordered iterator assigns %s, which is read after the loop (last-writer depends on hash order)" % (
                body.local_name(l) or "_%d" % l), mir.Site(body, bb, si)))
    if not res:
        res.append((True, "for-loop body only inserts into hash/btree containers and reads; single exit on exhaustion", next_site))
    return res


def scan_hash(run, crate, rule_prefix="A1"):
    """all uses of hash containers in `crate`; returns number of iteration instances"""
    n_iter = 0
    n_calls = 0
    for body in crate.real_bodies():
        for cs in body.calls():
            t = cs.node
            sty = self_ty(t)
            m = method(t)
            involved = is_hash_container(sty) or any(is_hash_container(arg_ty(body, a)) for a in t["args"])
            if not involved:
                continue
            n_calls += 1
            name = cname(t)
            key = "%s.hash-use|%s|%s" % (rule_prefix, body.name, name)
            recv_is_hash = is_hash_container(sty)
            if m in ITER_CREATORS and (recv_is_hash or m == "into_iter"):
                n_iter += 1
                results = check_hash_iteration(run, crate, body, cs)
                for i, (ok, why, site) in enumerate(results):
                    run.ob("%s.hash-iter" % rule_prefix, "%s: %s" % (body.name, name), ok, why, site=site,
                           key="%s.hash-iter|%s|%s|%s" % (rule_prefix, body.name, name, "ok" if ok else norm(why)[:80]))
            elif recv_is_hash and m in TRAVERSAL:
                run.ob("%s.hash-traversal" % rule_prefix, "%s: %s" % (body.name, name), False,
                       "`%s` visits the entries of a hash container in hash order with a caller-visible effect" % name, site=cs, key=key)
            elif recv_is_hash and m in LOOKUP:
                run.ob("%s.hash-use" % rule_prefix, "%s: %s" % (body.name, name), True,
                       "order-free use of a hash container (`%s`)" % m, site=cs, key=key + "|" + str(cs.bb), nontrivial=True)
            elif recv_is_hash:
                run.ob("%s.hash-use" % rule_prefix, "%s: %s" % (body.name, name), False,
                       "unclassified method `%s` on a hash container (not in the lookup whitelist)" % name, site=cs, key=key)
            else:
                # hash container passed to some other function
                lb = crate.bodies.get(t["callee"].get("resolved")) or crate.bodies.get(t["callee"].get("path"))
                if lb is not None:
                    run.ob("%s.hash-pass" % rule_prefix, "%s -> %s" % (body.name, lb.name), True,
                           "hash container handed to a crate function that is scanned by the same rule", site=cs,
                           key=key + "|" + str(cs.bb))
                elif m in ("drop", "drop_in_place", "clone", "len", "deref", "borrow", "as_ref", "eq", "ne", "from", "into", "Some", "Ok"):
                    pass
                else:
                    run.ob("%s.hash-pass" % rule_prefix, "%s: %s" % (body.name, name), False,
                           "hash container handed to `%s` (outside the crate, not whitelisted): may traverse it" % name, site=cs, key=key)
        # locals whose type is a hash-order iterator but whose creation we did not see
        creators = set()
        for cs in body.calls():
            if mentions_hash_iter(cs.node["dest"].get("ty", {})) or mentions_hash_iter(body.local_ty(cs.node["dest"]["l"])):
                creators.add(cs.node["dest"]["l"])
        for i, l in enumerate(body.locals):
            if mentions_hash_iter(l["ty"]) and not l["ty"].get("s", "").startswith("&") and i > body.arg_count:
                # must be produced by a call we classified or a move of such
                pass
        for i in range(1, body.arg_count + 1):
            if mentions_hash_iter(body.local_ty(i)) and body.kind != "closure":
                run.ob("%s.hash-iter-param" % rule_prefix, body.name, False,
                       "function takes a hash-ordered iterator as parameter (%s)" % body.local_ty(i).get("s"), site=mir.line_of(body.span),
                       key="%s.hash-iter-param|%s" % (rule_prefix, body.name))
    return n_iter, n_calls


def scan_other_sources(run, crate, rule_prefix="A1"):
    """clock / env / address / thread / random sources; one obligation per body"""
    n = 0
    for body in crate.real_bodies():
        bad = []
        ncalls = 0
        for cs in body.calls():
            t = cs.node
            ncalls += 1
            for nm in (cname(t), norm(t["callee"].get("resolved", ""))):
                if nm and NONDET_CALL_RE.search(nm) and not ADDR_ONLY.search(nm):
                    if cs.span.get("exp") and any("format_args" in m or "panic" in m for m in cs.span.get("macros", [])) and not re.search(r"Pointer|new_pointer", nm):
                        continue
                    bad.append((cs, "call to `%s` (run-dependent value)" % nm))
                    break
        for s in body.assigns():
            rv = s.node["rv"]
            if rv["k"] == "cast" and ("ExposeProvenance" in rv["kind"] or (rv["kind"] == "Transmute" and _ptr_to_int(body, rv))):
                if s.span.get("exp"):
                    continue
                bad.append((s, "pointer-to-integer cast (address observed as a value)"))
            if rv["k"] == "threadlocal":
                bad.append((s, "thread-local access `%s`" % rv.get("def")))
        n += 1
        if bad:
            for (site, why) in bad:
                run.ob("%s.nondet-source" % rule_prefix, body.name, False, why, site=site,
                       key="%s.nondet-source|%s|%s" % (rule_prefix, body.name, norm(why)[:60]))
        else:
            run.ob("%s.nondet-source" % rule_prefix, body.name, True,
                   "no clock/env/pid/thread/random/address source among %d calls" % ncalls,
                   site=mir.line_of(body.span), key="%s.nondet-source|%s" % (rule_prefix, body.name), nontrivial=ncalls > 0)
    return n


def _ptr_to_int(body, rv):
    src = arg_ty(body, rv["op"]).get("s", "")
    dst = rv["ty"].get("s", "")
    return (src.startswith("*") or src.startswith("&")) and dst in ("usize", "u64", "isize", "i64", "u128")


def scan_shared_state(run, crate, rule="PM14.no-shared-state"):
    """no statics, thread-locals, interior mutability or threads in the crate"""
    for st in crate.statics:
        if not st["mut"] and not st["thread_local"] and not INTERIOR.search(st["ty"]["s"]):
            run.ob(rule, "static " + st["path"], True, "immutable static of plain data (%s): a constant table, not shared mutable state" % st["ty"]["s"][:60],
                   site=mir.line_of(st["span"]), key="%s|static|%s" % (rule, st["path"]))
            continue
        run.ob(rule, "static " + st["path"], False,
               "static item (%s%s) is state shared between calls/threads" % ("thread_local " if st["thread_local"] else "", st["ty"]["s"]),
               site=mir.line_of(st["span"]), key="%s|static|%s" % (rule, st["path"]))
    run.ob(rule, "statics", True, "%d static items in %s examined" % (len(crate.statics), crate.name),
           key="%s|statics-count" % rule, nontrivial=False)
    for path, adt in sorted(crate.adts.items()):
        bad = []
        for v in adt["variants"]:
            for f in v["fields"]:
                if INTERIOR.search(f["ty"]["s"]):
                    bad.append("%s.%s: %s" % (v["name"], f["name"], f["ty"]["s"]))
        run.ob(rule, "type " + path, not bad,
               ("fields with interior mutability / shared ownership: " + "; ".join(bad)) if bad else
               "no field of %s has interior mutability or shared ownership" % path,
               site=mir.line_of(adt["span"]), key="%s|adt|%s" % (rule, path))
    for body in crate.real_bodies():
        bad = []
        for i, l in enumerate(body.locals):
            if INTERIOR.search(l["ty"]["s"]):
                # formatting machinery & log macros use no such types; anything here is user code
                bad.append("_%d: %s" % (i, l["ty"]["s"]))
        for cs in body.calls():
            nm = cname(cs.node)
            if nm.startswith("std::thread::") or nm.startswith("std::sync::"):
                bad.append("call " + nm)
        if bad:
            run.ob(rule, body.name, False, "interior mutability / threads in a body: " + "; ".join(bad[:4]),
                   site=mir.line_of(body.span), key="%s|body|%s" % (rule, body.name))
    run.ob(rule, "bodies", True, "%d bodies scanned for Cell/RefCell/Mutex/Atomic/Rc/Arc locals and std::thread/std::sync calls" % len(crate.real_bodies()),
           key="%s|bodies" % rule, nontrivial=True)
