"""PM: parser-mechanism pack (C01, C03, C06, C11).  Dependence facts about the
mechanisms that make the inference sound/exact; each rule is tagged with the
properties for which breaking it breaks behaviour *in that direction*.
Roles are resolved by what the code does, not by private names."""
from .. import mir
from ..mir import strip, term_of, term_s
from . import events
from .common import arg_ty, cname, find_loop_of, is_mut_ref, method, norm, self_ty


MAP_ADTS = ("std::collections::HashMap", "std::collections::BTreeMap")


def _map_call(name, meth):
    return name in tuple("%s::%s" % (a, meth) for a in MAP_ADTS)


class Arm:
    """where the mechanism of an element-opening event arm lives: inline in the event loop, or in one crate
    helper the arm delegates to (the helper then receives the current element, the event, the seen list and -
    for Start - the reader, and its Ok value becomes the current element)"""

    def __init__(self, R, v):
        self.R = R
        self.v = v
        ev = R.ev
        el = R.el
        self.problems = []
        self.via = None
        self.body = el
        self.blocks = ev.exclusive(v)
        self.param = None
        lib = R.lib
        calls = [c for c in ev.calls(v) if c.node["callee"].get("local") and c.node["callee"].get("path") in lib.bodies]
        direct_tp = [c for c in calls if c.node["callee"]["path"] == R.tp.name]
        if direct_tp:
            return
        # delegation: exactly one crate call taking the element by value and returning Result<Element, _>
        cands = []
        for c in calls:
            f = lib.fns.get(c.node["callee"]["path"], {})
            if any(t.get("adt") == "element::Element" and t.get("refs") == 0 for t in f.get("inputs", [])) and f.get("output", {}).get("adt") == "std::result::Result":
                cands.append(c)
        if len(cands) != 1:
            self.problems.append("%s arm neither calls the tag parser nor delegates to exactly one helper" % v)
            return
        h = cands[0]
        hb = lib.bodies[h.node["callee"]["path"]]
        f = lib.fns[hb.name]
        par = {}
        for i, t in enumerate(f["inputs"]):
            st = t.get("s", "")
            if t.get("adt") == "element::Element" and t.get("refs") == 0:
                par["root"] = i + 1
            elif "BytesStart" in st:
                par["event"] = i + 1
            elif st.startswith(SEEN_TYPES):
                par["seen"] = i + 1
            elif "quick_xml::Reader<" in st:
                par["reader"] = i + 1
        if not {"root", "event", "seen"} <= set(par):
            self.problems.append("%s arm delegates to %s, whose parameters are not (element, event, seen list[, reader])" % (v, hb.name))
            return
        # the hand-over at the event-loop level
        a = {k: strip(term_of(el, h.node["args"][i - 1])) for k, i in par.items()}
        if not _is_root(R, a["root"]):
            self.problems.append("%s arm hands %s (not the current element) to %s" % (v, term_s(a["root"]), hb.name))
        if not _same_event(R, a["event"], v):
            self.problems.append("%s arm hands a different event to %s" % (v, hb.name))
        if "reader" in par and not _is_reader(R, a["reader"]):
            self.problems.append("%s arm hands a different reader to %s" % (v, hb.name))
        if not _result_becomes_root(R, h):
            self.problems.append("%s arm does not store the Ok value of %s back into the current element" % (v, hb.name))
        self.via = h
        self.body = hb
        self.blocks = set(hb.reachable())
        self.param = par
        self.el_seen = a["seen"]

    # -- predicates on terms of self.body
    def is_root(self, t):
        if self.via is None:
            return _is_root(self.R, t)
        return t in (("arg", self.param["root"]), ("local", self.param["root"]))

    def is_event(self, t):
        t = strip(t)
        if self.via is None:
            return _same_event(self.R, t, self.v)
        return t in (("arg", self.param["event"]), ("local", self.param["event"]))

    def is_reader(self, t):
        if self.via is None:
            return _is_reader(self.R, t)
        return "reader" in self.param and strip(t) == ("arg", self.param["reader"])

    def stores_back(self, call, depth=0):
        """the Ok value of `call` becomes the current element: assigned to the element variable, returned as
        Ok(..)/directly, or handed as the element argument to a later mechanism call whose result is"""
        b = self.body
        cf = self.R.lib.fns.get(call.node["callee"].get("path"), {})
        inplace_idx = [i for i, t in enumerate(cf.get("inputs", [])) if t.get("adt") == "element::Element" and t.get("s", "").startswith("&mut ")]
        if inplace_idx and call.node["callee"].get("path") != self.R.tp.name:
            # a mechanism step that updates the element it is handed through a unique reference (e.g. the demotion step):
            # it must be handed the current element; a Result, if any, must be propagated
            arg = strip(term_of(b, call.node["args"][inplace_idx[0]]))
            if not self.is_root(arg):
                return False
            if cf.get("output", {}).get("adt") != "std::result::Result":
                return True
            return any(cname(c.node) == "std::ops::Try::branch" and ("call", call) in b.origins(c.node["args"][0]) for c in b.calls()) or \
                (call.node["dest"]["l"] == 0 and not call.node["dest"]["p"])
        if getattr(self.R, "tp_inplace", False) and call.node["callee"].get("path") == self.R.tp.name:
            # the tag parser updates the element it is handed in place; its Result must be `?`-propagated or returned
            if call.node["dest"]["l"] == 0 and not call.node["dest"]["p"]:
                return True
            return any(cname(c.node) == "std::ops::Try::branch" and ("call", call) in b.origins(c.node["args"][0]) for c in b.calls())
        if self.via is None:
            if _result_becomes_root(self.R, call):
                return True
        else:
            rl = self.param["root"]
            for s in b.assigns():
                if s.node["place"]["l"] == rl and not s.node["place"]["p"] and s.node["rv"]["k"] == "use":
                    org = b.origins(s.node["rv"]["op"], transparent=lambda n: cname(n) == "std::ops::Try::branch")
                    if ("call", call) in org:
                        return True
            for s in b.assigns():
                if s.node["place"]["l"] == 0 and s.node["rv"]["k"] == "agg" and s.node["rv"].get("variant") == "Ok":
                    if ("call", call) in b.origins(s.node["rv"]["ops"][0], transparent=lambda n: cname(n) == "std::ops::Try::branch"):
                        return True
            if call.node["dest"]["l"] == 0 and not call.node["dest"]["p"]:
                return True
        if depth < 3:
            for c2 in b.calls():
                if c2 == call or not c2.node["callee"].get("local"):
                    continue
                for a in c2.node["args"]:
                    if arg_ty(b, a).get("adt") == "element::Element" and arg_ty(b, a).get("refs") == 0:
                        if ("call", call) in b.origins(a, transparent=lambda n: cname(n) == "std::ops::Try::branch") and self.stores_back(c2, depth + 1):
                            return True
        return False

    def returns_root(self):
        if self.via is None:
            return True
        b = self.body
        oks = [s for s in b.assigns() if s.node["place"]["l"] == 0 and s.node["rv"]["k"] == "agg" and s.node["rv"].get("variant") == "Ok"]
        return all(self.is_root(strip(term_of(b, s.node["rv"]["ops"][0]))) or s.node["rv"]["ops"] and
                   any(o[0] == "call" for o in b.origins(s.node["rv"]["ops"][0], transparent=lambda n: cname(n) == "std::ops::Try::branch")) for s in oks)

    def seen_at_loop_level(self, tp_call):
        """term of the seen list as seen in the event loop body"""
        if self.via is None:
            return strip(term_of(self.body, tp_call.node["args"][self.R.tp_param["seen"] - 1]))
        return self.el_seen

    def seen_is_forwarded(self, tp_call):
        if self.via is None:
            return True
        t = strip(term_of(self.body, tp_call.node["args"][self.R.tp_param["seen"] - 1]))
        return t == ("arg", self.param["seen"])

    def event_name_of(self, t):
        """t == decode(event.name())? exactly, for this arm's event"""
        b = self.body

        def exact(x):
            src = decoded_source(b, x)
            return src is not None and src[0] == "call" and src[1] == "quick_xml::events::BytesStart::name" and self.is_event(src[2][0])
        if exact(t):
            return True
        tt = strip(t, mir.VALUE_PRESERVING)
        if tt[0] == "local":
            ds = b.defs().get(tt[1], [])
            return bool(ds) and all(d.si is not None and d.node["k"] == "assign" and not d.node["place"]["p"] and d.node["rv"]["k"] == "use" and
                                    exact(term_of(b, d.node["rv"]["op"])) for d in ds)
        return False

    def calls_to(self, path):
        b = self.body
        return [c for c in b.calls() if c.bb in self.blocks and c.node["callee"].get("path") == path]


class Roles:
    def __init__(self, lib):
        self.lib = lib
        self.problems = []
        self.ev = events.EventLoop(lib)
        if not self.ev.ok:
            self.problems.append("event loop not recognised")
            return
        self.el = self.ev.body
        tps = _find_tag_parsers(lib)
        if len(tps) != 1:
            self.problems.append("expected one tag parser (body reading BytesStart::attributes), found %d" % len(tps))
            return
        self.tp = tps[0]
        # parameter roles of the tag parser by type
        f = lib.fns[self.tp.name]
        self.tp_param = {}
        for i, t in enumerate(f["inputs"]):
            s = t.get("s", "")
            if t.get("adt") == "element::Element" and (t.get("refs") == 0 or s.startswith("&mut ")):
                self.tp_param["root"] = i + 1
                # the current element is taken by value and handed back, or updated in place through a unique reference
                self.tp_inplace = t.get("refs") != 0
            elif "BytesStart" in s:
                self.tp_param["event"] = i + 1
            elif s.startswith(SEEN_TYPES):
                self.tp_param["seen"] = i + 1
            elif "Option<&mut quick_xml::Reader" in s:
                self.tp_param["reader"] = i + 1
        if set(self.tp_param) != {"root", "event", "seen", "reader"}:
            self.problems.append("tag parser parameters not recognised: %s" % self.tp_param)
            return
        self.arm = {}
        for v in ("Start", "Empty"):
            if v not in self.ev.variants:
                self.problems.append("no %s event kind" % v)
                return
            self.arm[v] = Arm(self, v)
            self.problems += self.arm[v].problems
        if self.problems:
            return

        def local_calls(v):
            A = self.arm[v]
            return [c for c in A.body.calls() if c.bb in A.blocks and c.node["callee"].get("local") and c.node["callee"].get("path") in lib.bodies]
        s_calls = {c.node["callee"]["path"] for c in local_calls("Start")}
        e_calls = {c.node["callee"]["path"] for c in local_calls("Empty")}
        helper = set(decoders(lib))      # the strict byte -> String decoders, wherever they live
        both = (s_calls & e_calls) - {self.tp.name} - helper
        both = {p for p in both if not _is_pure_helper(lib, p)}
        if len(both) != 1:
            self.problems.append("expected one demotion step called in both the Start and Empty arms, found %s" % sorted(both))
            return
        from .. import desugar
        self.ds = desugar.desugar(lib, lib.bodies[next(iter(both))])
        # snapshot fn: local call in the Start arm, not in Empty, whose argument derives from get_child
        sn = []
        A = self.arm["Start"]
        for c in local_calls("Start"):
            p = c.node["callee"]["path"]
            if p in (self.tp.name, self.ds.name) or p in e_calls:
                continue
            t = [strip(term_of(A.body, a)) for a in c.node["args"]]
            if any(x[0] == "call" and x[1].endswith("Element::get_child") for x in t):
                sn.append(c)
        if len(sn) != 1:
            self.problems.append("expected one snapshot call (argument = get_child(name)) in the Start arm, found %d" % len(sn))
            return
        self.sn_call = sn[0]
        from .common import normal_form
        self.sn_raw = lib.bodies[sn[0].node["callee"]["path"]]
        self.sn = normal_form(lib, self.sn_raw)
        self.tp_calls = {v: self.arm[v].calls_to(self.tp.name) for v in ("Start", "Empty")}
        self.ds_calls = {v: self.arm[v].calls_to(self.ds.name) for v in ("Start", "Empty")}

    @property
    def ok(self):
        return not self.problems


def _find_tag_parsers(lib):
    """bodies that read BytesStart::attributes, in normal form (private helpers inlined, closures/pipelines explicit);
    a private helper inlined into another candidate is not a candidate itself"""
    from .common import normal_form
    ATTR = "quick_xml::events::BytesStart::attributes"
    direct = {b.name for b in lib.real_bodies() if any(cname(c.node) == ATTR for c in b.calls())}
    cands = []
    for b in lib.real_bodies():
        if b.kind == "closure" or not (lib.reachable_from([b.name]) & direct):
            continue
        nb = normal_form(lib, b, also=lambda cb, t: cb.name not in decoders(lib))
        if any(cname(c.node) == ATTR for c in nb.calls()):
            cands.append((b, nb))
    if len(cands) > 1:
        called = set()
        for b, _ in cands:
            called |= lib.reachable_from([b.name]) - {b.name}
        cands = [(b, nb) for b, nb in cands if not (b.name in called and not lib.fns.get(b.name, {}).get("pub"))]
    return [nb for _, nb in cands]


def _is_pure_helper(lib, path):
    f = lib.fns.get(path, {})
    return not any(t.get("adt") == "element::Element" for t in f.get("inputs", []))


def ob(r, rule, props, subject, ok, why, site=None, key=None):
    """record an obligation only if it is relevant for the running property"""
    if r.prop not in props:
        return ok
    return r.ob(rule, subject, ok, why, site=site, key=key or "%s|%s" % (rule, subject))


# --------------------------------------------------------------------------

def pm1_event_classes(r, R):
    ev = R.ev
    b = ev.body
    P = ("C01", "C03", "C11", "C08")
    for v in ev.variants:
        cls = events.CLASS.get(v)
        tgt = ev.target(v)
        site = mir.Site(b, tgt, None) if tgt is not None else ev.read
        if cls is None:
            ob(r, "PM1.event-class", P, "Event::%s" % v, False, "event kind `%s` of the locked quick-xml is not classified (it may carry structure or character data)" % v, site, "PM1|%s|unclassified" % v)
        elif cls in ("open", "open-empty"):
            n = len(R.tp_calls.get(v, []))
            ob(r, "PM1.event-class", P, "Event::%s" % v, n == 1,
               "reaches the tag parser exactly once" if n == 1 else "reaches the tag parser %d times" % n, site, "PM1|%s|open" % v)
        elif cls == "chardata":
            ok, why = _sets_text(R, v)
            ob(r, "PM1.event-class", ("C01", "C03", "C11", "C08"), "Event::%s" % v, ok, why, site, "PM1|%s|chardata" % v)
        elif cls == "ignored":
            calls, writes, ret = ev.calls(v), ev.writes(v), ev.can_return(v)
            ok = not calls and not writes and not ret
            ob(r, "PM1.event-class", ("C01", "C03", "C11"), "Event::%s" % v, ok, "no call, no write, loop continues" if ok else
               "ignored event kind has effects: calls=%s writes=%s returns=%s" % ([cname(c.node) for c in calls][:3], [w.loc() for w in writes][:3], ret), site, "PM1|%s|ignored" % v)
        elif cls == "finish":
            outs = mir.walk_paths(b, tgt, lambda bb, st: ("ret", st.get(0)) if b.blocks[bb]["term"]["k"] == "return" else (("loop", bb) if bb == ev.header else None)) if tgt is not None else [("none",)]
            ok = bool(outs) and all(o == ("ret", "Ok") for o in outs)
            val_ok = True
            if ok:
                # returns the current element (parameter root)
                for bb in ev.region[v]:
                    for st in b.blocks[bb]["stmts"]:
                        if st["k"] == "assign" and st["place"]["l"] == 0 and st["rv"]["k"] == "agg" and st["rv"]["variant"] == "Ok":
                            t = strip(term_of(b, st["rv"]["ops"][0]))
                            val_ok = val_ok and _is_root(R, t)
            ob(r, "PM1.event-class", ("C01", "C03", "C06", "C07"), "Event::%s" % v, ok and val_ok, "returns Ok(current element)" if ok and val_ok else "outcomes %s, returns root=%s" % (outs[:3], val_ok), site, "PM1|%s|finish" % v)


def _root_local(R):
    f = R.lib.fns[R.el.name]
    for i, t in enumerate(f["inputs"]):
        if t.get("adt") == "element::Element" and t.get("refs") == 0:
            return i + 1
    return None


def _is_root(R, t):
    rl = _root_local(R)
    return t == ("arg", rl) or t == ("local", rl)


def _sets_text(R, v):
    """arm writes root.text = Some(<payload-derived>) on every path that continues the loop"""
    ev = R.ev
    b = ev.body
    rl = _root_local(R)
    tgt = ev.target(v)
    if tgt is None:
        return False, "no arm"
    writes = []
    for s in ev.writes(v):
        pl = b.canon(s.node["place"])
        fs = mir.place_fields(pl)
        if pl["l"] == rl and fs and fs[-1] == ("element::Element", "text"):
            writes.append(s)
    if not writes:
        return False, "character data does not set the element's text flag"
    for w in writes:
        t = strip(term_of(b, w.node["rv"]["op"])) if w.node["rv"]["k"] == "use" else None
        if w.node["rv"]["k"] == "agg":
            var = w.node["rv"]["variant"]
        else:
            var = t[2] if t and t[0] == "agg" else None
        if var != "Some":
            return False, "text is set to %s" % var
    # every path from the arm back to the loop header passes a write
    wb = {w.bb for w in writes}
    def vis(bb, st):
        if bb in wb:
            return ("set", bb)
        if bb == ev.header:
            return ("loop", bb)
        tt = b.blocks[bb]["term"]
        if tt["k"] == "call" and cname(tt) == "std::ops::FromResidual::from_residual" and tt["dest"]["l"] == 0:
            return ("ret", "Err")
        if tt["k"] == "return":
            return ("ret", st.get(0))
        return None
    outs = mir.walk_paths(b, tgt, vis)
    bad = [o for o in outs if o[0] == "loop" or (o[0] == "ret" and o[1] != "Err") or o[0] == "exit"]
    if bad:
        return False, "a path through the arm continues without setting text (%s)" % (bad[:2],)
    # other effects: only conversion calls
    other = [cname(c.node) for c in ev.calls(v) if not (cname(c.node).startswith("quick_xml::events::Bytes") or c.node["callee"].get("path") in decoders(R.lib) or
             cname(c.node) in ("std::ops::Try::branch", "std::ops::FromResidual::from_residual") or cname(c.node) in mir.VALUE_PRESERVING)]
    if other:
        return False, "character-data arm has further effects: %s" % other[:3]
    return True, "sets text = Some(_) on every non-error path and does nothing else"


def pm2_open_arms(r, R):
    """Start passes Some(reader), Empty passes None; same root, same seen list, same event"""
    P = ("C01", "C03", "C11")
    if len(R.tp_calls["Start"]) != 1 or len(R.tp_calls["Empty"]) != 1:
        return
    cs, ce = R.tp_calls["Start"][0], R.tp_calls["Empty"][0]
    As, Ae = R.arm["Start"], R.arm["Empty"]
    pr = R.tp_param
    a_s = {k: strip(term_of(As.body, cs.node["args"][i - 1])) for k, i in pr.items()}
    a_e = {k: strip(term_of(Ae.body, ce.node["args"][i - 1])) for k, i in pr.items()}
    ok = a_s["reader"][0] == "agg" and a_s["reader"][2] == "Some" and As.is_reader(list(a_s["reader"][3].values())[0])
    ob(r, "PM2.start-descends", P, "Start arm", ok, "passes Some(the loop's reader): the element's content is parsed into the child" if ok else
       "Start arm passes %s as reader" % term_s(a_s["reader"])[:60], cs, "PM2|start-reader")
    ok = a_e["reader"][0] == "agg" and a_e["reader"][2] == "None"
    ob(r, "PM2.empty-does-not-descend", P, "Empty arm", ok, "passes no reader: nothing is consumed for an empty element" if ok else
       "Empty arm passes %s as reader" % term_s(a_e["reader"])[:60], ce, "PM2|empty-reader")
    ls, le = As.seen_at_loop_level(cs), Ae.seen_at_loop_level(ce)
    same_seen = ls == le and ls[0] in ("local", "call") and As.seen_is_forwarded(cs) and Ae.seen_is_forwarded(ce)
    ob(r, "PM2.same-seen-list", P, "Start/Empty arms", same_seen, "both arms pass the same per-activation list of seen names" if same_seen else
       "seen-list arguments differ: %s vs %s" % (term_s(ls), term_s(le)), cs, "PM2|seen")
    for v, a, c, A in (("Start", a_s, cs, As), ("Empty", a_e, ce, Ae)):
        okr = A.is_root(a["root"])
        ob(r, "PM2.parses-into-current", P, "%s arm" % v, okr, "tag parser receives the current element" if okr else "tag parser receives %s" % term_s(a["root"]), c, "PM2|root|%s" % v)
        oke = A.is_event(a["event"])
        ob(r, "PM2.parses-this-event", P, "%s arm" % v, oke, "tag parser receives this event's tag" if oke else "tag parser receives %s" % term_s(a["event"]), c, "PM2|event|%s" % v)
        ok2 = A.stores_back(c) and A.returns_root()
        ob(r, "PM2.result-is-current", ("C01", "C03", "C06"), "%s arm" % v, ok2, "the tag parser's Ok value replaces the current element" if ok2 else
           "the tag parser's result is not stored back into the current element", c, "PM2|store|%s" % v)


def _derives_local(t, l):
    return any(st == ("local", l) for st in mir.subterms(t))


def _is_reader(R, t):
    t = strip(t)
    rd = strip(term_of(R.el, R.ev.read.node["args"][0]))
    return mir.same_place_term(t, rd)


def _result_becomes_root(R, call):
    """?-propagated and the Continue payload assigned to the root variable"""
    b = R.el
    rl = _root_local(R)
    for s in b.assigns():
        if s.node["place"]["l"] == rl and not s.node["place"]["p"] and s.node["rv"]["k"] == "use":
            org = b.origins(s.node["rv"]["op"])
            if any(o[0] == "call" and cname(o[1].node) == "std::ops::Try::branch" and ("call", call) in b.origins(o[1].node["args"][0]) for o in org):
                return True
    return False


def pm5_seen_list(r, R):
    b = R.el
    P = ("C03",)
    # fresh local of each activation
    cs = R.tp_calls["Start"][0] if R.tp_calls["Start"] else None
    if cs is None:
        return
    t = R.arm["Start"].seen_at_loop_level(cs)
    cs_loop = R.arm["Start"].via or cs
    fresh = t[0] == "call" and t[1] in SEEN_NEW and t[3].bb not in (find_loop_of(b, R.ev.header) or (0, set()))[1]
    ob(r, "PM5b.seen-list-per-activation", P + ("C01",), R.el.name, fresh, "the seen list is an empty collection created once per activation, outside the event loop" if fresh else
       "the seen list is %s" % term_s(t), cs_loop, "PM5b|fresh")
    f = R.lib.fns[R.el.name]
    leak = [t.get("s") for t in f["inputs"] if any(x[5:] in t.get("s", "") for x in SEEN_TYPES)]
    ob(r, "PM5b.seen-list-not-inherited", P, R.el.name, not leak, "the event loop takes no seen list from its caller: nested elements start with an empty one" if not leak else
       "the event loop receives a seen list from its caller (%s): repetition is no longer counted per parent occurrence" % leak, mir.line_of(R.el.span), "PM5b|inherit")
    # other writers of the seen list inside the event loop
    root = t[3].node["dest"]["l"] if t[0] == "call" else None
    bad = []
    if root is not None:
        for c in b.calls():
            for a in c.node["args"]:
                if is_mut_ref(arg_ty(b, a)):
                    p = mir.op_place(a)
                    allowed = {R.tp.name} | {A.body.name for A in R.arm.values() if A.via is not None}
                    if p is not None and b.through_ref(p)["l"] == root and c.node["callee"].get("path") not in allowed:
                        bad.append(c)
    ob(r, "PM5b.seen-list-only-tag-parser", P + ("C01",), R.el.name, not bad, "only the tag parser modifies the seen list" if not bad else
       "the seen list is also modified by %s" % [cname(c.node) for c in bad], (bad or [cs_loop])[0], "PM5b|writers")
    # PM5a: in the tag parser every Ok path records the name
    tp = R.tp
    seen_arg = R.tp_param["seen"]
    pushes = [c for c in tp.calls() if cname(c.node) == "std::vec::Vec::push" and strip(term_of(tp, c.node["args"][0])) == ("arg", seen_arg)]
    contains = [c for c in tp.calls() if cname(c.node) in SEEN_CONTAINS and _root_is_arg(strip(term_of(tp, c.node["args"][0])), seen_arg)]
    ok_blocks = [s.bb for s in tp.assigns() if s.node["place"]["l"] == 0 and s.node["rv"]["k"] == "agg" and s.node["rv"]["variant"] == "Ok"]
    good = False
    why = "no push onto the seen list"
    for p in pushes:
        deps = tp.control_deps().get(p.bb, set())
        guard = [(a, s) for (a, s) in deps]
        g_ok = len(guard) == 1 and _is_contains_false(tp, guard[0], contains)
        pushed = strip(term_of(tp, p.node["args"][1]), mir.VALUE_PRESERVING)
        name_ok = _is_tag_name(tp, pushed, R.tp_param["event"])
        # the guard block dominates every Ok return
        dom_ok = g_ok and all(tp.dominates(guard[0][0], ob_) for ob_ in ok_blocks) and ok_blocks
        if g_ok and name_ok and dom_ok:
            good = True
            why = "every Ok path passes `if !seen.contains(name) { seen.push(name) }` with name = this tag's name"
        else:
            why = "push guard ok=%s, pushes the tag name=%s, on every Ok path=%s" % (g_ok, name_ok, bool(dom_ok))
    # a set records by `insert(name)`, which is its own membership test: unconditional, before every Ok exit
    inserts = [c for c in tp.calls() if cname(c.node) in SEEN_SET_INSERT and strip(term_of(tp, c.node["args"][0])) == ("arg", seen_arg)]
    for p in inserts:
        name_ok = _is_tag_name(tp, strip(term_of(tp, p.node["args"][1]), mir.VALUE_PRESERVING), R.tp_param["event"])
        # conditions on the way to the insert may only be error exits of `?` (no Ok exit may bypass it)
        dom_ok = bool(ok_blocks) and all(tp.dominates(p.bb, ob_) for ob_ in ok_blocks)
        if name_ok and dom_ok:
            good = True
            why = "every Ok path passes `seen.insert(name)` with name = this tag's name"
        else:
            why = "set insert: inserts the tag name=%s, on every Ok path=%s" % (name_ok, dom_ok)
    ob(r, "PM5a.name-recorded", ("C01", "C03"), tp.name, good, why, (pushes + inserts)[0] if pushes or inserts else mir.line_of(tp.span), "PM5a|record")
    # PM5c: the membership tests speak about the *earlier* siblings: no test can run after this occurrence was recorded
    late = []
    for p in pushes + inserts:
        after = set()
        for nb in tp.succs(p.bb):
            after |= tp.reach_from(nb)
        late += [c for c in contains if c.bb in after]
    ob(r, "PM5c.recorded-after-the-tests", ("C03",), tp.name, not late, "no membership test of the seen list is reachable from the point where this tag's name is recorded" if not late else
       "the seen list is asked about the name after this occurrence was recorded: the first occurrence already counts as a repetition", (late or pushes + inserts or [mir.line_of(tp.span)])[0], "PM5c|order")


def _root_is_arg(t, n):
    while t[0] in ("call", "ref", "proj"):
        if t[0] == "call":
            if t[1] not in mir.TRANSPARENT_CALLS or not t[2]:
                return False
            t = strip(t[2][0])
        else:
            t = strip(t[1])
    return t == ("arg", n)


def _is_contains_false(b, edge, contains_calls):
    a, s = edge
    tt = b.blocks[a]["term"]
    if tt["k"] != "switch":
        return False
    c = strip(term_of(b, tt["op"]))
    neg = False
    while c[0] == "unop" and c[1] == "Not":
        c = strip(c[2])
        neg = not neg
    if not (c[0] == "call" and any(c[3] == cc for cc in contains_calls)):
        return False
    false_edge = any(int(v) == 0 and t == s for v, t in tt["targets"])
    return false_edge != neg


# the per-activation collection of the names already seen below the current element: a list or a set of Strings
SEEN_TYPES = ("&mut std::vec::Vec<std::string::String>", "&mut std::collections::HashSet<std::string::String>", "&mut std::collections::BTreeSet<std::string::String>")
SEEN_NEW = ("std::vec::Vec::new", "std::collections::HashSet::new", "std::collections::BTreeSet::new")
SEEN_CONTAINS = ("core::slice::contains", "std::collections::HashSet::contains", "std::collections::BTreeSet::contains")
SEEN_SET_INSERT = ("std::collections::HashSet::insert", "std::collections::BTreeSet::insert")


BYTES_PRESERVING = mir.VALUE_PRESERVING + (
    "alloc::slice::to_vec", "core::slice::to_vec", "std::slice::to_vec", "alloc::slice::<impl [T]>::to_vec", "std::vec::Vec::to_vec",
    "quick_xml::name::QName::into_inner", "quick_xml::name::QName::as_ref", "std::borrow::Cow::into_owned", "std::borrow::Cow::to_vec",
    "alloc::slice::into_vec", "std::slice::into_vec", "std::string::String::from", "std::vec::Vec::from")


def decoders(lib):
    """crate functions (one non-Element parameter) -> Result<String, _> that decode *the whole argument* with the strict
    String::from_utf8: every result is from_utf8(bytes of the argument) with a mapped error, or the result of another
    decoder applied to the argument as it is (value/byte-preserving conversions only - no slicing, trimming, sampling).
    The C08 rules check their error handling; the mechanism rules treat a call as `the text of the argument`"""
    if getattr(lib, "_decoders", None) is None:
        cands = {}
        for p, f in lib.fns.items():
            o = f.get("output") or {}
            if o.get("adt") == "std::result::Result" and o.get("s", "").startswith("std::result::Result<std::string::String,") and \
                    len(f.get("inputs", [])) == 1 and f["inputs"][0].get("adt") != "element::Element" and p in lib.bodies:
                cands[p] = lib.bodies[p]
        out = set()
        for _ in range(3):
            for p, b in cands.items():
                if p in out:
                    continue
                res = []
                for s_ in b.sites():
                    n = s_.node
                    if s_.si is not None and n["k"] == "assign" and n["place"]["l"] == 0 and not n["place"]["p"] and n["rv"]["k"] == "use":
                        t = strip(term_of(b, n["rv"]["op"]))
                        if t[0] == "local":
                            res += [strip(a) for a in (mir._alternatives(b, t[1], 0, True, frozenset()) or [t])]
                        else:
                            res.append(t)
                    elif s_.si is None and n["k"] == "call" and n["dest"]["l"] == 0 and not n["dest"]["p"]:
                        res.append(("call", cname(n), [term_of(b, a) for a in n["args"]], s_))
                ok = bool(res)
                for t in res:
                    x = strip(t, mir.VALUE_PRESERVING)
                    while x[0] == "call" and x[1] in mir.OK_PRESERVING and x[2]:
                        x = strip(x[2][0], mir.VALUE_PRESERVING)
                    if x[0] == "call" and x[1] == "std::ops::FromResidual::from_residual":
                        continue        # the error path of an inner `?`
                    if x[0] == "agg" and x[2] == "Ok" and x[3]:
                        # Ok(decode(arg)?) : look at the payload
                        y = strip(mir.canon_try(strip(list(x[3].values())[0], mir.VALUE_PRESERVING)), mir.VALUE_PRESERVING)
                        if y[0] == "proj" and tuple(e[:2] for e in y[2] if e != "*") == (("dc", "Ok"), ("f", "std::result::Result")):
                            x = strip(y[1], mir.VALUE_PRESERVING)
                            while x[0] == "call" and x[1] in mir.OK_PRESERVING and x[2]:
                                x = strip(x[2][0], mir.VALUE_PRESERVING)
                    whole = x[0] == "call" and x[2] and strip(x[2][0], BYTES_PRESERVING) == ("arg", 1)
                    if not (whole and (x[1] in ("std::string::String::from_utf8",) or x[1] in out or x[3].node["callee"].get("path") in out)):
                        ok = False
                if ok:
                    out.add(p)
        lib._decoders = out
    return lib._decoders


def decoded_source(b, t):
    """if t is exactly `decode(X)?` (a decoder call or String::from_utf8 with a mapped error, through value-preserving
    conversions only) return the stripped term X, else None"""
    t = strip(mir.canon_try(strip(t, mir.VALUE_PRESERVING)), mir.VALUE_PRESERVING)
    if t[0] == "proj" and tuple(e[:2] for e in t[2] if e != "*") == (("dc", "Ok"), ("f", "std::result::Result")):
        x = strip(t[1], mir.VALUE_PRESERVING)
    else:
        return None
    if x[0] == "call" and x[1] in ("std::string::String::from_utf8",):
        return strip(x[2][0], BYTES_PRESERVING)
    if x[0] == "call" and x[1] in decoders(b.crate) and len(x[2]) == 1:
        return strip(x[2][0], BYTES_PRESERVING)
    return None


def _is_tag_name(b, t, event_arg):
    """t == decode(event.name())? exactly (no other transformation of the name)"""
    if isinstance(event_arg, tuple) and event_arg[0] == "name-param":
        return strip(t, mir.VALUE_PRESERVING) == ("arg", event_arg[1])
    src = decoded_source(b, t)
    return src is not None and src[0] == "call" and src[1] == "quick_xml::events::BytesStart::name" and _root_is_arg(strip(src[2][0]), event_arg)


def pm6_multiple(r, R):
    """set_multiple is reached exactly when the seen list contains the name (both child paths); PM7 increment"""
    tp = R.tp
    seen_arg = R.tp_param["seen"]
    contains = [c for c in tp.calls() if cname(c.node) in SEEN_CONTAINS and _root_is_arg(strip(term_of(tp, c.node["args"][0])), seen_arg)]
    sm = [c for c in tp.calls() if c.node["callee"].get("path", "").endswith("Element::<T>::set_multiple") or cname(c.node).endswith("Element::set_multiple")]
    # the two child paths: Some / None outcome of remove_child(root, name)
    rc = [c for c in tp.calls() if cname(c.node).endswith("Element::remove_child")]
    if len(rc) != 1:
        ob(r, "PM6.anchor", ("C01", "C03"), tp.name, False, "expected one remove_child(name) in the tag parser, found %d" % len(rc), mir.line_of(tp.span), "PM6|anchor")
        return
    sw = mir.switch_enum(tp, tp.succs(rc[0].bb)[0])
    if sw is None:
        ob(r, "PM6.anchor", ("C01", "C03"), tp.name, False, "result of remove_child is not matched directly", rc[0], "PM6|anchor2")
        return
    arms = {"existing": mir.variant_target(sw, tp, "Some"), "new": mir.variant_target(sw, tp, "None")}
    regions = {k: (tp.reach_from(v) if v is not None else set()) for k, v in arms.items()}
    excl = {"existing": regions["existing"] - regions["new"], "new": regions["new"] - regions["existing"]}
    common = (regions["existing"] & regions["new"])
    ok_blocks = [s_.bb for s_ in tp.assigns() if s_.node["place"]["l"] == 0 and s_.node["rv"]["k"] == "agg" and s_.node["rv"]["variant"] == "Ok"]

    def site_guard(c, region):
        deps = {(a, s_) for (a, s_) in tp.transitive_control_deps(c.bb) if a in region}
        cont = [(a, s_) for (a, s_) in deps if _is_contains_edge(tp, (a, s_), contains)]
        others = [(a, s_) for (a, s_) in deps if (a, s_) not in cont and not _is_variant_split(tp, a)]
        true_edge = bool(cont) and all(_contains_truth(tp, e) for e in cont)
        name_ok = False
        for (a, s_) in cont:
            cc = strip(term_of(tp, tp.blocks[a]["term"]["op"]))
            nm = strip(cc[2][1], mir.VALUE_PRESERVING)
            name_ok = _is_tag_name(tp, nm, R.tp_param["event"]) or _name_var(tp, cc[2][1], R) or _is_built_childs_name(tp, R, nm, rc[0])
        return cont, others, true_edge and name_ok

    for path, blocks in excl.items():
        here = [c for c in sm if c.bb in blocks]
        shared = [c for c in sm if c.bb in common]
        ok_a = ok_b = False
        site = rc[0]
        if len(here) == 1 and not shared:
            cont, others, good = site_guard(here[0], blocks)
            ok_a, ok_b, site = good, good and not others, here[0]
            why = "set_multiple is control dependent on seen.contains(tag name) == true%s" % ("" if not others else " AND on further tests at %s" % [mir.Site(tp, a, None).loc() for a, _ in others]) if cont else \
                "set_multiple is not guarded by the seen-list membership test"
        elif not here and len(shared) == 1:
            # one guarded site after the two paths joined: the membership test must lie on every Ok path
            cont, others, good = site_guard(shared[0], common)
            test_blocks = {a for (a, _) in cont}
            on_every_path = bool(test_blocks) and bool(ok_blocks) and all(any(tp.dominates(tb, ob_) for tb in test_blocks) for ob_ in ok_blocks)
            ok_a, ok_b, site = good and on_every_path, good and on_every_path and not others, shared[0]
            why = "one set_multiple after both paths joined, control dependent on seen.contains(name of the child being built) == true and passed by every Ok path" if ok_a else \
                "shared set_multiple: guard ok=%s, on every Ok path=%s" % (good, on_every_path)
        else:
            why = "%d set_multiple call(s) on the %s-child path, %d after the join" % (len(here), path, len(shared))
        ob(r, "PM6a.repeat-marks-multiple", ("C01", "C03"), "%s: %s-child path" % (tp.name, path), ok_a, why, site, "PM6a|%s" % path)
        if ok_a:
            ob(r, "PM6b.multiple-only-on-repeat", ("C03",), "%s: %s-child path" % (tp.name, path), ok_b, why if not ok_b else
               "set_multiple is reached only through the membership test", site, "PM6b|%s" % path)
    stray = [c for c in sm if c.bb not in excl["existing"] and c.bb not in excl["new"] and c.bb not in common]
    if len([c for c in sm if c.bb in common]) > 1:
        stray += [c for c in sm if c.bb in common][1:]
    ob(r, "PM6b.no-unconditional-multiple", ("C03",), tp.name, not stray, "no set_multiple outside the guarded site(s)" if not stray else
       "set_multiple also called at %s" % [c.loc() for c in stray], (stray or [rc[0]])[0], "PM6b|stray")
    # PM7 increment on the existing path before recursion
    inc = [c for c in tp.calls() if cname(c.node).endswith("Element::increment") and c.bb in excl["existing"]]
    rec = [c for c in tp.calls() if c.node["callee"].get("path") == R.el.name and c.bb in excl["existing"]]
    ok = len(inc) == 1 and not {(a, s) for (a, s) in tp.transitive_control_deps(inc[0].bb) if a in excl["existing"] and not _is_variant_split(tp, a)} and \
        all(tp.dominates(inc[0].bb, c.bb) for c in rec)
    ob(r, "PM7.occurrence-counted", ("C03", "C01"), "%s: existing-child path" % tp.name, ok, "the child's occurrence counter is incremented unconditionally before its content is parsed" if ok else
       "increment calls on the existing-child path: %d (must be one, unconditional, before the recursion)" % len(inc), inc[0] if inc else rc[0], "PM7|inc")
    inc_new = [c for c in tp.calls() if cname(c.node).endswith("Element::increment") and c.bb in excl["new"]]
    ob(r, "PM7.new-child-not-counted-twice", ("C03",), "%s: new-child path" % tp.name, not inc_new, "a new child starts at its constructor's count and is not incremented" if not inc_new else
       "a new child is incremented", (inc_new or [rc[0]])[0], "PM7|new")
    R.tp_excl = excl
    R.tp_rc = rc[0]


def _is_built_childs_name(tp, R, nm, rc):
    """nm == <child being built>.name, the child deriving from the removed child or from Element::new(tag name, ..)"""
    if not (nm[0] == "proj" and nm[2] and nm[2][-1] != "*" and nm[2][-1][0] == "f" and nm[2][-1][3] == "name"):
        return False
    base = nm[1]
    if base[0] != "local":
        return False
    org = tp.origins({"l": base[1], "p": []}, transparent=lambda n: n is not rc.node and not cname(n).endswith("Element::new"))
    from_removed = ("call", rc) in org
    news = [o for o in org if o[0] == "call" and cname(o[1].node).endswith("Element::new")]
    new_ok = all(_name_var(tp, term_of(tp, o[1].node["args"][0]), R) for o in news)
    return (from_removed or bool(news)) and new_ok and not any(o[0] == "call" and o not in news and o != ("call", rc) for o in org)


def _is_variant_split(b, a):
    """branches that only separate error exits / loop exhaustion / tag variants from the normal
    continuation (`?`, match on an item Result, Iterator::next, Mandatory|Optional split, drop flags)"""
    sw = mir.switch_enum(b, a)
    if sw is not None and sw["enum"] in ("necessity::Necessity", "std::ops::ControlFlow", "std::result::Result"):
        return True
    if sw is not None and sw["enum"] == "std::option::Option":
        t = strip(term_of(b, sw["place"]))
        if t[0] == "call" and t[1] in ("std::iter::Iterator::next",):
            return True
    tt = b.blocks[a]["term"]
    if tt["k"] == "switch":
        p = mir.op_place(tt["op"])
        if p is not None and not p["p"] and b.is_drop_flag(p["l"]):
            return True
    return False


def _is_contains_edge(b, edge, contains_calls):
    a, s = edge
    tt = b.blocks[a]["term"]
    if tt["k"] != "switch":
        return False
    c = strip(term_of(b, tt["op"]))
    return c[0] == "call" and any(c[3] == cc for cc in contains_calls)


def _contains_truth(b, edge):
    a, s = edge
    tt = b.blocks[a]["term"]
    return not any(int(v) == 0 and t == s for v, t in tt["targets"])


def _name_var(tp, t, R):
    """argument is the `name` variable = decode(event.name())? exactly"""
    t = strip(t, mir.VALUE_PRESERVING)
    if t[0] == "local":
        ds = [d for d in tp.defs().get(t[1], [])]
        if ds and all(d.si is not None and d.node["k"] == "assign" and not d.node["place"]["p"] and d.node["rv"]["k"] == "use" and
                      _is_tag_name(tp, term_of(tp, d.node["rv"]["op"]), R.tp_param["event"]) for d in ds):
            return True
    return _is_tag_name(tp, t, R.tp_param["event"])


def _attr_source_exact(tp, t, event_arg, depth=0):
    """t (the receiver of the attribute loop's next) is event.attributes() itself: no adapter in between"""
    t = strip(t)
    if t[0] == "call" and t[1] == "std::iter::IntoIterator::into_iter" and t[2]:
        return _attr_source_exact(tp, t[2][0], event_arg, depth + 1)
    if t[0] == "call" and t[1] == "quick_xml::events::BytesStart::attributes":
        return _root_is_arg(strip(t[2][0]), event_arg)
    if t[0] == "local" and depth < 4:
        ds = tp.defs().get(t[1], [])
        return bool(ds) and all(d.si is not None and d.node["k"] == "assign" and not d.node["place"]["p"] and d.node["rv"]["k"] == "use" and
                                _attr_source_exact(tp, term_of(tp, d.node["rv"]["op"]), event_arg, depth + 1) for d in ds)
    return False


def _attr_key_exact(tp, t, n):
    """t == decode(item.key)? where item is the Ok payload of the attribute iterator's next call n"""
    src = decoded_source(tp, t)
    if src is None:
        return False
    src = mir.canon_try(src)
    if src[0] != "proj":
        return False
    base = strip(src[1])
    path = [e[1] if e[0] == "dc" else e[-1] for e in src[2] if e != "*"]
    return base[0] == "call" and len(base) > 3 and base[3] == n and path == ["Some", "0", "Ok", "0", "key"]


# --------------------------------------------------------------------------
# guard description

def guards_of(b, bb, within=None):
    """non-benign predicates the block is (transitively) control dependent on.
    -> list of tuples: ("enum", enum path, stripped place term, variant|"<other>") |
                       ("call", callee, [stripped arg terms], truth) | ("flag", local, truth) | ("other", bb)"""
    out = []
    deps = sorted(b.transitive_control_deps(bb))
    by_branch = {}
    for (a, s) in deps:
        by_branch.setdefault(a, set()).add(s)
    for (a, s) in deps:
        if within is not None and a not in within:
            continue
        # dependent on *every* alternative of a branch (each arm has its own error exits): unconditional
        if by_branch[a] >= set(b.succs(a)):
            continue
        tt = b.blocks[a]["term"]
        if tt["k"] != "switch":
            continue
        sw = mir.switch_enum(b, a)
        if sw is not None:
            if sw["enum"] in ("std::ops::ControlFlow", "std::result::Result"):
                continue
            pt = strip(term_of(b, sw["place"]))
            if sw["enum"] == "std::option::Option" and pt[0] == "call" and pt[1] == "std::iter::Iterator::next":
                continue
            vs = [v for v in sw["variants"] if mir.variant_target(sw, b, v) == s]
            out.append(("enum", sw["enum"], pt, vs[0] if len(vs) == 1 else "<other>"))
            continue
        p = mir.op_place(tt["op"])
        if p is not None and not p["p"] and b.is_drop_flag(p["l"]):
            continue
        c = strip(term_of(b, tt["op"]))
        truth = not any(int(v) == 0 and t == s for v, t in tt["targets"])
        neg = False
        while c[0] == "unop" and c[1] == "Not":
            c = strip(c[2])
            neg = not neg
        if c[0] == "call":
            out.append(("call", c[1], [strip(x, mir.VALUE_PRESERVING) for x in c[2]], truth != neg, c[3]))
        elif c[0] == "local":
            out.append(("flag", c[1], truth != neg))
        else:
            out.append(("value", c, truth != neg, a))
    ded = []
    for g in out:
        if g not in ded:
            ded.append(g)
    return ded


def dominating_edge_guards(b, bb):
    """branch edges that every path from the entry to bb must take (e.g. the exit edge of a `while` loop),
    described like guards_of"""
    out = []
    for a in sorted(b.dom().get(bb, ())):
        if a == bb:
            continue
        tt = b.blocks[a]["term"]
        if tt["k"] != "switch":
            continue
        for s in b.succs(a):
            if bb in b.reach_from(0, avoid_edges={(a, s)}):
                continue
            c = strip(term_of(b, tt["op"]))
            truth = not any(int(v) == 0 and t == s for v, t in tt["targets"])
            neg = False
            while c[0] == "unop" and c[1] == "Not":
                c = strip(c[2])
                neg = not neg
            if c[0] == "call":
                out.append(("call", c[1], [strip(x, mir.VALUE_PRESERVING) for x in c[2]], truth != neg, c[3], (a, s)))
    return out


def guard_s(g):
    if g[0] == "enum":
        return "%s is %s" % (term_s(g[2])[:50], g[3])
    if g[0] == "call":
        return "%s%s(%s)" % ("" if g[3] else "!", g[1].split("::")[-1], ", ".join(term_s(a)[:30] for a in g[2]))
    if g[0] == "flag":
        return "%s_%d" % ("" if g[2] else "!", g[1])
    if g[0] == "value":
        return "%s(%s)" % ("" if g[2] else "!", term_s(g[1])[:50])
    return str(g)


def _arm_blocks(R, v):
    return R.ev.exclusive(v)


def pm8_start_protocol(r, R):
    """Start: snapshot -> tag parser -> demotion (iff the child pre-existed); Empty: tag parser -> demotion with empty snapshot"""
    As, Ae = R.arm["Start"], R.arm["Empty"]
    b = As.body
    P = ("C01", "C03", "C11")
    if not (len(R.tp_calls["Start"]) == 1 and len(R.tp_calls["Empty"]) == 1):
        return
    tp_s, tp_e = R.tp_calls["Start"][0], R.tp_calls["Empty"][0]
    sn = R.sn_call
    # PM8b snapshot before the tag parser, of the child with this tag's name under the current element
    a = strip(term_of(b, sn.node["args"][0]))
    ok = b.dominates(sn.bb, tp_s.bb) and sn.bb != tp_s.bb and a[0] == "call" and a[1].endswith("Element::get_child") and \
        As.is_root(strip(a[2][0])) and As.event_name_of(a[2][1])
    ob(r, "PM8b.snapshot-before-parse", ("C03", "C01", "C06"), "Start arm", ok, "the child counts are snapshotted from current.get_child(tag name) before the element is parsed" if ok else
       "snapshot call is not get_child(current, this tag's name) taken before the tag parser (arg: %s)" % term_s(a)[:80], sn, "PM8b|snapshot")
    # demotion in Start
    ds = R.ds_calls["Start"]
    okd = len(ds) == 1
    why = "%d demotion call(s) in the Start arm" % len(ds)
    if okd:
        d = ds[0]
        g = guards_of(b, d.bb, within=As.blocks)
        flag_ok = len(g) == 1 and g[0][2] is True and ((g[0][0] == "flag" and _flag_from_snapshot(R, g[0][1], b)) or
                                                        (g[0][0] == "value" and _sn_result_field(R, g[0][1], 1)))
        if len(g) == 1 and g[0][0] == "enum" and g[0][1] == "std::option::Option" and g[0][3] == "Some":
            # `if let Some(snapshot) = count_children(..)`: the Option of the snapshot is the pre-existence flag
            gt = g[0][2]
            flag_ok = gt[0] == "call" and len(gt) > 3 and gt[3] == R.sn_call
        after = b.dominates(tp_s.bb, d.bb)
        args = [strip(term_of(b, x)) for x in d.node["args"]]
        snap_ok = any(_is_snapshot_map(R, x, b) for x in args)
        ev_ok = any(As.is_event(x) for x in args) or any(As.event_name_of(term_of(b, x)) for x in d.node["args"])
        okd = flag_ok and after and snap_ok and ev_ok
        why = "after the tag parser, exactly when the child pre-existed, with the snapshot and this event" if okd else \
            "demotion call: guard=%s (must be the pre-existence flag only), after parser=%s, snapshot passed=%s, same event=%s" % ([guard_s(x) for x in g], after, snap_ok, ev_ok)
    ob(r, "PM8a.demotion-after-repeat", P + ("C06",), "Start arm", okd, why, ds[0] if ds else tp_s, "PM8a|start")
    if ds:
        ok2 = As.stores_back(ds[0])
        ob(r, "PM8a.demotion-result-kept", P + ("C06",), "Start arm", ok2, "the demotion step's Ok value replaces the current element" if ok2 else "demotion result is not stored back", ds[0], "PM8a|store|Start")
    # the flag in the snapshot function: true iff the child exists
    _snapshot_flag(r, R)
    # PM11 Empty
    de = R.ds_calls["Empty"]
    oke = len(de) == 1
    why = "%d demotion call(s) in the Empty arm" % len(de)
    if oke:
        d = de[0]
        be = Ae.body
        g = guards_of(be, d.bb, within=Ae.blocks)
        args = [strip(term_of(be, x)) for x in d.node["args"]]
        empty_map = any(x[0] == "call" and (_map_call(x[1], "new") or x[1] == "std::default::Default::default") for x in args)
        oke = not g and be.dominates(tp_e.bb, d.bb) and empty_map and \
            (any(Ae.is_event(x) for x in args) or any(Ae.event_name_of(term_of(be, x)) for x in d.node["args"]))
        why = "after the tag parser, unconditionally, with an empty snapshot (every Mandatory child of an existing element is demoted)" if oke else \
            "Empty-arm demotion: guards=%s, empty snapshot=%s" % ([guard_s(x) for x in g], empty_map)
    ob(r, "PM11.empty-demotes", P + ("C06",), "Empty arm", oke, why, de[0] if de else tp_e, "PM11|empty")
    if de:
        ok2 = Ae.stores_back(de[0])
        ob(r, "PM8a.demotion-result-kept", P + ("C06",), "Empty arm", ok2, "the demotion step's Ok value replaces the current element" if ok2 else "demotion result is not stored back", de[0], "PM8a|store|Empty")


def _is_event_name(R, t, v):
    """t == to_str(e.name()) for the payload of arm v (through `?`)"""
    b = R.el
    for st in mir.subterms(strip(t, mir.VALUE_PRESERVING)):
        if st[0] == "call" and st[1] == "quick_xml::events::BytesStart::name":
            return _same_event(R, st[2][0], v)
    # through a variable holding the `?` payload
    tt = strip(t, mir.VALUE_PRESERVING)
    if tt[0] == "local":
        for d in b.defs().get(tt[1], []):
            if d.si is not None and d.node["k"] == "assign" and d.node["rv"]["k"] == "use":
                org = b.origins(d.node["rv"]["op"], transparent=lambda x: True)
                if ("call", R.ev.read) in org:
                    return True
    return False


def _same_event(R, t, v):
    t = strip(t)
    pl = R.ev.payload_local(v)
    if t == ("local", pl):
        return True
    if t[0] != "proj" or not any(e != "*" and e[0] == "dc" and e[1] == v for e in t[2]):
        return False
    base = t[1]
    for _ in range(4):
        if base[0] == "call" and len(base) > 3 and base[3] == R.ev.read:
            return True
        if base[0] == "call" and base[1] in ("std::ops::Try::branch", "std::result::Result::map_err") and base[2]:
            base = strip(base[2][0])
            continue
        break
    return False


def _sn_result_field(R, t, idx):
    t = strip(t)
    if t[0] == "proj" and t[1][0] == "call" and len(t[1]) > 3 and t[1][3] == R.sn_call and idx == 0 and \
            [e[1] if e[0] == "dc" else e[-1] for e in t[2] if e != "*"] == ["Some", "0"]:
        return True     # Option-valued snapshot: the map is the Some payload
    return t[0] == "proj" and t[1][0] == "call" and len(t[1]) > 3 and t[1][3] == R.sn_call and any(e != "*" and e[0] == "i" and e[1] == idx for e in t[2])


def _flag_from_snapshot(R, local, b=None):
    b = b or R.el
    for d in b.defs().get(local, []):
        if d.si is not None and d.node["k"] == "assign" and d.node["rv"]["k"] == "use":
            if _sn_result_field(R, term_of(b, d.node["rv"]["op"]), 1):
                return True
    return False


def _is_snapshot_map(R, t, b=None):
    b = b or R.el
    if _sn_result_field(R, t, 0):
        return True
    if t[0] == "local":
        for d in b.defs().get(t[1], []):
            if d.si is not None and d.node["k"] == "assign" and d.node["rv"]["k"] == "use" and _sn_result_field(R, term_of(b, d.node["rv"]["op"]), 0):
                return True
    return False


def _sn_results(sn):
    """result tuples of the snapshot function: list of (Site, map term, flag term)"""
    out = []
    for s in sn.assigns():
        if s.node["place"]["l"] == 0 and not s.node["place"]["p"] and s.node["rv"]["k"] == "agg" and s.node["rv"]["kind"] == "tuple" and len(s.node["rv"]["ops"]) == 2:
            a, b_ = s.node["rv"]["ops"]
            fa, fb = arg_ty(sn, a).get("prim") == "bool", arg_ty(sn, b_).get("prim") == "bool"
            if fb and not fa:
                out.append((s, a, b_))
            elif fa and not fb:
                out.append((s, b_, a))
    return out


def _snapshot_option_form(r, R):
    """the snapshot function returns Option<map>: Some(snapshot) exactly when the child already exists (the Option
    plays the role of the pre-existence flag)"""
    sn = R.sn
    if R.lib.fns.get(sn.name, {}).get("output", {}).get("adt") != "std::option::Option":
        return False
    somes, nones, other = [], [], []
    for s_ in sn.sites():
        n = s_.node
        if s_.si is not None and n["k"] == "assign" and n["place"]["l"] == 0 and not n["place"]["p"]:
            rv = n["rv"]
            if rv["k"] == "agg" and rv.get("variant") == "Some":
                somes.append(s_)
            elif rv["k"] == "agg" and rv.get("variant") == "None":
                nones.append(s_)
            else:
                other.append(s_)
        elif s_.si is None and n["k"] == "call" and n["dest"]["l"] == 0 and not n["dest"]["p"]:
            src = strip(term_of(sn, n["args"][0])) if n["args"] else ("x",)
            if cname(n) == "std::ops::FromResidual::from_residual" and any(st[0] == "call" and st[1] == "std::ops::Try::branch" and strip(st[2][0]) == ("arg", 1) for st in mir.subterms(src)):
                nones.append(s_)       # `tag?`: None exactly when the tag is None
            else:
                other.append(s_)
    ok = len(somes) == 1 and nones and not other
    why = "Option-valued snapshot function not recognised (%d Some / %d None / %d other results)" % (len(somes), len(nones), len(other))
    if ok:
        g = guards_of(sn, somes[0].bb)
        extra = [x for x in g if not (x[0] == "enum" and x[1] == "std::option::Option" and x[2] == ("arg", 1) and x[3] == "Some")]
        tested = any(x[0] == "enum" and x[2] == ("arg", 1) for x in g) or \
            any(cname(c.node) == "std::ops::Try::branch" and strip(term_of(sn, c.node["args"][0])) == ("arg", 1) and sn.dominates(c.bb, somes[0].bb) for c in sn.calls())
        for s_ in nones:
            if s_.si is not None:
                gn = guards_of(sn, s_.bb)
                if not any(x[0] == "enum" and x[2] == ("arg", 1) and x[3] == "None" for x in gn):
                    tested = False
        ok = not extra and tested
        why = "result is Some(snapshot) exactly when the child already exists and None otherwise" if ok else "Some/None of the snapshot is not tied to Some(tag)/None (%s)" % [guard_s(x) for x in extra]
    ob(r, "PM8a.pre-existence-flag", ("C01", "C03", "C06"), sn.name, ok, why, mir.line_of(sn.span), "PM8a|flag")
    ob(r, "PM9.single-result-path", ("C01", "C03", "C06"), sn.name, ok, "every result of the snapshot function is Some(snapshot) / None of the checked alternatives" if ok else
       "the snapshot function has result paths that are not the checked Some(snapshot) / None", somes[0] if somes else mir.line_of(sn.span), "PM9|single-result")
    return True


def _snapshot_flag(r, R):
    if _snapshot_option_form(r, R):
        return
    sn = R.sn
    res = _sn_results(sn)
    ok = False
    why = "the pre-existence flag of the snapshot function was not recognised"
    consts = [(s, strip(term_of(sn, f))) for (s, m, f) in res]
    if len(res) >= 2 and all(t[0] == "const" and isinstance(t[1], bool) for _, t in consts):
        # one result tuple per alternative: (.., true) exactly under Some(tag), (.., false) under None
        good = True
        seen = set()
        for (s, t) in consts:
            g = guards_of(sn, s.bb)
            opt = [x for x in g if x[0] == "enum" and x[1] == "std::option::Option" and x[2] == ("arg", 1)]
            if len(opt) != 1 or (opt[0][3] == "Some") != t[1]:
                good = False
            seen.add(t[1])
        ok = good and seen == {True, False}
        why = "result is (snapshot, true) exactly when the child already exists and (.., false) otherwise" if ok else "flag constants are not tied to Some(tag)/None"
    elif len(res) == 1:
        t = strip(term_of(sn, res[0][2]))
        flag_local = t[1] if t[0] == "local" else None
        if flag_local is not None:
            sets = [(s, s.node["rv"]["op"]["const"].get("bool")) for s in sn.defs().get(flag_local, []) if s.si is not None and s.node["rv"]["k"] == "use" and "const" in s.node["rv"]["op"]]
            trues = [s for s, v in sets if v is True]
            falses = [s for s, v in sets if v is False]
            ok = len(trues) == 1 and len(sets) == len(sn.defs().get(flag_local, []))
            if ok:
                g = guards_of(sn, trues[0].bb)
                ok = len(g) == 1 and g[0][0] == "enum" and g[0][1] == "std::option::Option" and g[0][2] == ("arg", 1) and g[0][3] == "Some"
                ok = ok and bool(falses) and all(sn.dominates(f.bb, trues[0].bb) or f.bb == trues[0].bb for f in falses)
                why = "flag = (the child already exists): set to true exactly in the Some arm, false initially" if ok else "flag guards: %s" % [guard_s(x) for x in g]
    ob(r, "PM8a.pre-existence-flag", ("C01", "C03", "C06"), sn.name, ok, why, mir.line_of(sn.span), "PM8a|flag")
    rets = [s for s in sn.assigns() if s.node["place"]["l"] == 0 and not s.node["place"]["p"]]
    okr = len(rets) == len(res) and len(res) in (1, 2)
    ob(r, "PM9.single-result-path", ("C01", "C03", "C06"), sn.name, okr, "every result of the snapshot function is a (snapshot, flag) pair of the checked alternatives" if okr else
       "the snapshot function has %d result paths, %d of them recognised: a side exit bypasses the checked snapshot" % (len(rets), len(res)), rets[0] if rets else None, "PM9|single-result")


def pm9_snapshot(r, R):
    """snapshot = {name -> count} of exactly the Mandatory children"""
    sn = R.sn
    ins = [c for c in sn.calls() if _map_call(cname(c.node), "insert")]
    okn = len(ins) == 1
    if not ins and _pm9_combinator_form(r, R):
        return
    if not okn:
        ob(r, "PM9.snapshot-inserts", ("C01", "C03"), sn.name, False, "expected one insert into the snapshot, found %d" % len(ins), mir.line_of(sn.span), "PM9|count")
        return
    c = ins[0]
    g = guards_of(sn, c.bb)
    loop = find_loop_of(sn, c.bb)
    item_guard = [x for x in g if x[0] == "enum" and x[1] == "necessity::Necessity"]
    others = [x for x in g if x not in item_guard and not (x[0] == "enum" and x[2] == ("arg", 1))]
    ok_a = len(item_guard) == 1 and item_guard[0][3] == "Mandatory" and _is_loop_item(sn, item_guard[0][2], "children")
    ob(r, "PM9a.snapshot-only-mandatory", ("C01", "C03", "C06"), sn.name, ok_a, "a child is snapshotted only while it is Mandatory" if ok_a else
       "snapshot insert is guarded by %s" % [guard_s(x) for x in g], c, "PM9a|mandatory")
    ok_b = ok_a and not others and loop is not None
    key = strip(term_of(sn, c.node["args"][1]), mir.VALUE_PRESERVING)
    val = strip(term_of(sn, c.node["args"][2]), mir.VALUE_PRESERVING)
    key_ok = key[0] == "proj" and key[2][-1][0] == "f" and key[2][-1][3] == "name" and _is_loop_item(sn, key[1], "children")
    val_ok = val[0] == "call" and val[1].endswith("Element::count") and _is_loop_item(sn, val[2][0], "children")
    # full traversal of the children of the given element
    trav_ok = False
    if loop is not None:
        nx = [s for s in sn.calls() if cname(s.node) == "std::iter::Iterator::next" and s.bb in loop[1]]
        if len(nx) == 1:
            src = strip(term_of(sn, nx[0].node["args"][0]))
            chain = []
            t = src
            if t[0] == "local":
                ds = [d for d in sn.defs().get(t[1], []) if d.si is not None and d.node["rv"]["k"] == "use"]
                if len(ds) == 1:
                    t = strip(term_of(sn, ds[0].node["rv"]["op"]))
            while t[0] == "call" and t[2]:
                chain.append(t[1])
                t = strip(t[2][0])
            allowed = {"std::iter::IntoIterator::into_iter", "core::slice::iter", "element::Element::children", "necessity::Necessity::inner_t"} | set(mir.TRANSPARENT_CALLS)
            from .common import loop_exits
            early = [e for e in loop_exits(sn, loop[1]) if e[0] != sn.succs(nx[0].bb)[0]]
            trav_ok = all(x in allowed for x in chain) and "element::Element::children" in chain and not early
    ob(r, "PM9b.snapshot-every-mandatory", ("C03",), sn.name, ok_b and key_ok and val_ok and trav_ok,
       "every Mandatory child of the element is recorded as name -> its occurrence counter (full traversal, no other condition)" if ok_b and key_ok and val_ok and trav_ok else
       "other guards=%s key is child.name=%s value is child.count()=%s full traversal=%s" % ([guard_s(x) for x in others], key_ok, val_ok, trav_ok), c, "PM9b|all")


def _pm9_combinator_form(r, R):
    """snapshot built as tag.children().iter().filter_map(|c| match c { Mandatory(c) => Some((c.name.clone(), c.count())), _ => None }).collect()"""
    sn = R.sn
    cols = [c for c in sn.calls() if cname(c.node) == "std::iter::Iterator::collect" and (c.node["callee"].get("targs", [{}, {}])[1:] or [{}])[0].get("adt") in MAP_ADTS]
    if len(cols) != 1:
        return False
    c = cols[0]
    t = strip(term_of(sn, c.node["args"][0]))
    chain = []
    clo = None
    while t[0] == "call" and t[2]:
        chain.append(t[1])
        if t[1] == "std::iter::Iterator::filter_map":
            clo = strip(t[2][1])
        t = strip(t[2][0])
    allowed = {"std::iter::Iterator::filter_map", "std::iter::IntoIterator::into_iter", "core::slice::iter", "element::Element::children", "necessity::Necessity::inner_t"} | set(mir.TRANSPARENT_CALLS)
    trav_ok = all(x in allowed for x in chain) and chain.count("std::iter::Iterator::filter_map") == 1 and "element::Element::children" in chain and \
        t[0] == "proj" and t[1] == ("arg", 1)
    cb = R.lib.bodies.get(clo[1]) if clo is not None and clo[0] in ("fn", "agg") else None
    ok_a = ok_b = False
    why = "filter_map closure not recognised"
    if cb is not None:
        somes = [s for s in cb.assigns() if s.node["place"]["l"] == 0 and s.node["rv"]["k"] == "agg" and s.node["rv"].get("variant") == "Some"]
        nones = [s for s in cb.assigns() if s.node["place"]["l"] == 0 and s.node["rv"]["k"] == "agg" and s.node["rv"].get("variant") == "None"]
        if len(somes) == 1 and nones:
            g = guards_of(cb, somes[0].bb)
            tag = [x for x in g if x[0] == "enum" and x[1] == "necessity::Necessity"]
            ok_a = len(tag) == 1 and tag[0][3] == "Mandatory" and any(st == ("arg", 2) for st in mir.subterms(tag[0][2])) and len(g) == 1
            pair = strip(term_of(cb, somes[0].node["rv"]["ops"][0]))
            if pair[0] == "agg" and len(pair[3]) == 2:
                k, v = [strip(x, mir.VALUE_PRESERVING) for x in pair[3].values()]
                key_ok = k[0] == "proj" and k[2][-1][0] == "f" and k[2][-1][3] == "name" and any(st == ("arg", 2) for st in mir.subterms(k))
                val_ok = v[0] == "call" and v[1].endswith("Element::count") and any(st == ("arg", 2) for st in mir.subterms(v))
                ok_b = ok_a and key_ok and val_ok and trav_ok
            ng = [guards_of(cb, n.bb) for n in nones]
            why = "closure yields Some((child.name, child.count())) exactly for Mandatory children; full traversal of tag.children()"
    ob(r, "PM9a.snapshot-only-mandatory", ("C01", "C03", "C06"), sn.name, ok_a, "a child is snapshotted only while it is Mandatory (filter_map form)" if ok_a else why, c, "PM9a|mandatory")
    ob(r, "PM9b.snapshot-every-mandatory", ("C03",), sn.name, ok_b, why if ok_b else "filter_map/collect snapshot: traversal ok=%s, entries ok=%s" % (trav_ok, ok_b), c, "PM9b|all")
    # the collected map is what the Some-alternative returns
    res = _sn_results(sn)
    okm = any(("call", c) in sn.origins(m) for (s, m, f) in res)
    ob(r, "PM9.snapshot-inserts", ("C01", "C03"), sn.name, okm, "the collected map is the snapshot returned" if okm else "the collected map is not returned", c, "PM9|count")
    return True


def _is_loop_item(b, t, field_hint=None):
    """t derives from the Some payload of an Iterator::next over Necessity<Element> items"""
    for st in mir.subterms(strip(t)):
        if st[0] == "proj" and st[1][0] == "call" and st[1][1] == "std::iter::Iterator::next":
            if "Necessity<element::Element<" in self_ty(st[1][3].node).get("s", ""):
                return True
        if st[0] == "call" and st[1] == "std::iter::Iterator::next" and "Necessity<element::Element<" in self_ty(st[3].node).get("s", ""):
            return True
    return False


def pm10_demotion(r, R):
    """which names are collected for demotion, and that every collected name is demoted on the same parent"""
    ds = R.ds
    f = R.lib.fns[ds.name]
    par = {}
    for i, t in enumerate(f["inputs"]):
        s = t.get("s", "")
        if t.get("adt") == "element::Element":
            par["root"] = i + 1
        elif "BytesStart" in s:
            par["event"] = i + 1
        elif t.get("adt") in MAP_ADTS:
            par["snap"] = i + 1
        elif t.get("refs", 0) >= 1 and (t.get("adt") == "std::string::String" or t.get("prim") == "str"):
            par["name"] = i + 1     # the tag name, decoded by the caller (checked at the call sites: PM8a / PM11)
    if set(par) not in ({"root", "event", "snap"}, {"root", "name", "snap"}):
        ob(r, "PM10.anchor", ("C01", "C03"), ds.name, False, "demotion step parameters not recognised: %s" % par, mir.line_of(ds.span), "PM10|anchor")
        return
    if "name" in par:
        # inside the step, `the tag name` is the parameter itself
        par["event"] = ("name-param", par["name"])
    pushes = [c for c in ds.calls() if cname(c.node) == "std::vec::Vec::push"]
    coll = None
    if pushes:
        t = strip(term_of(ds, pushes[0].node["args"][0]))
        coll = t[3].node["dest"]["l"] if t[0] == "call" and len(t) > 3 else (t[1] if t[0] == "local" else None)

    def is_parent_guard(g):
        return g[0] == "enum" and g[1] == "std::option::Option" and g[3] == "Some" and g[2][0] == "call" and g[2][1].endswith(("Element::get_child", "Element::get_child_mut")) and \
            strip(g[2][2][0]) == ("arg", par["root"]) and _is_tag_name(ds, g[2][2][1], par["event"])

    kinds = {}
    for c in pushes:
        g = guards_of(ds, c.bb)
        rest = [x for x in g if not is_parent_guard(x)]
        has_parent = any(is_parent_guard(x) for x in g)
        val = strip(term_of(ds, c.node["args"][1]), mir.VALUE_PRESERVING)
        name_ok = val[0] == "proj" and val[2][-1][0] == "f" and val[2][-1][3] == "name" and _is_loop_item(ds, val[1])
        kind = None
        if has_parent and name_ok:
            enum_g = [x for x in rest if x[0] == "enum"]
            call_g = [x for x in rest if x[0] == "call"]
            # combinator form: snapshot.get(&child.name) == Some(&child.count())
            if len(rest) == 1 and len(call_g) == 1 and call_g[0][1] == "std::cmp::PartialEq::eq" and call_g[0][3] is True:
                sides = call_g[0][2]
                getter = [x for x in sides if x[0] == "call" and _map_call(x[1], "get") and strip(x[2][0]) == ("arg", par["snap"])]
                some = [x for x in sides if x[0] == "agg" and x[2] == "Some"]
                if len(getter) == 1 and len(some) == 1:
                    inner = strip(list(some[0][3].values())[0], mir.VALUE_PRESERVING)
                    keyt = strip(getter[0][2][1], mir.VALUE_PRESERVING)
                    if inner[0] == "call" and inner[1].endswith("Element::count") and _is_loop_item(ds, inner[2][0]) and _is_loop_item(ds, keyt):
                        kind = "unchanged"
            if len(rest) == 2 and len(enum_g) == 1 and len(call_g) == 1:
                e, cg = enum_g[0], call_g[0]
                if e[1] == "std::option::Option" and e[3] == "Some" and e[2][0] == "call" and _map_call(e[2][1], "get") and \
                        strip(e[2][2][0]) == ("arg", par["snap"]) and cg[1] == "std::cmp::PartialEq::eq" and cg[3] is True:
                    a, b_ = cg[2]
                    sides = [a, b_]
                    cnt = [x for x in sides if x[0] == "call" and x[1].endswith("Element::count") and _is_loop_item(ds, x[2][0])]
                    snapv = [x for x in sides if x[0] == "proj" and x[1][0] == "call" and _map_call(x[1][1], "get")]
                    if len(cnt) == 1 and len(snapv) == 1:
                        kind = "unchanged"
                if e[1] == "necessity::Necessity" and e[3] == "Mandatory" and _is_loop_item(ds, e[2]) and _map_call(cg[1], "contains_key") and cg[3] is False and \
                        strip(cg[2][0]) == ("arg", par["snap"]):
                    kind = "absent"
        kinds.setdefault(kind, []).append((c, g))
    u = kinds.get("unchanged", [])
    ob(r, "PM10a.unchanged-count-demoted", ("C01", "C03", "C06"), ds.name, len(u) == 1,
       "a child whose snapshot counter is unchanged (not seen in this occurrence) is collected for demotion" if len(u) == 1 else
       "%d collection site(s) guarded by `snapshot.get(child.name) == Some(child.count())`" % len(u), u[0][0] if u else mir.line_of(ds.span), "PM10a|unchanged")
    a = kinds.get("absent", [])
    ob(r, "PM10b.new-mandatory-demoted", ("C01", "C03", "C06"), ds.name, len(a) == 1,
       "a Mandatory child that is not in the snapshot (first seen in a later occurrence) is collected for demotion" if len(a) == 1 else
       "%d collection site(s) guarded by `Mandatory && !snapshot.contains_key(child.name)`" % len(a), a[0][0] if a else mir.line_of(ds.span), "PM10b|absent")
    other = kinds.get(None, [])
    ob(r, "PM10d.nothing-else-demoted", ("C03",), ds.name, not other, "no other collection site" if not other else
       "child names are also collected under: %s" % [[guard_s(x) for x in g] for _, g in other][:2], other[0][0] if other else mir.line_of(ds.span), "PM10d|other")
    # both traversals cover all children of the parent
    for kind, lst in (("unchanged", u), ("absent", a)):
        if len(lst) != 1:
            continue
        c = lst[0][0]
        lp = find_loop_of(ds, c.bb)
        okt = False
        if lp is not None:
            nx = [s for s in ds.calls() if cname(s.node) == "std::iter::Iterator::next" and s.bb in lp[1] and find_loop_of(ds, s.bb)[0] == lp[0]]
            if len(nx) == 1:
                from .common import loop_exits
                early = [e for e in loop_exits(ds, lp[1]) if e[0] != ds.succs(nx[0].bb)[0]]
                t = strip(term_of(ds, nx[0].node["args"][0]))
                if t[0] == "local":
                    dd = [d for d in ds.defs().get(t[1], []) if d.si is not None and d.node["rv"]["k"] == "use"]
                    if len(dd) == 1:
                        t = strip(term_of(ds, dd[0].node["rv"]["op"]))
                chain = []
                while t[0] == "call" and t[2]:
                    chain.append(t[1])
                    t = strip(t[2][0])
                okt = not early and "element::Element::children" in chain and all(x in ("std::iter::IntoIterator::into_iter", "core::slice::iter", "element::Element::children",
                                                                                   "necessity::Necessity::inner_t", "necessity::Necessity::inner_t_mut") + mir.TRANSPARENT_CALLS for x in chain)
        ob(r, "PM10.full-scan-%s" % kind, ("C01", "C03"), ds.name, okt, "the scan visits every child of the re-seen element" if okt else "the `%s` scan is not a full traversal of parent.children()" % kind,
           c, "PM10|scan|%s" % kind)
    # PM10c every collected name is demoted: pop loop -> set_child_optional(parent_mut, &name)
    sco = [c for c in ds.calls() if cname(c.node).endswith("Element::set_child_optional")]
    okc = len(sco) == 1
    why = "%d set_child_optional call(s)" % len(sco)
    if okc:
        c = sco[0]
        recv = strip(term_of(ds, c.node["args"][0]))
        nm = strip(term_of(ds, c.node["args"][1]), mir.VALUE_PRESERVING)
        pop_ok = nm[0] == "proj" and nm[1][0] == "call" and nm[1][1] == "std::vec::Vec::pop" and _root_local_of(ds, nm[1][2][0]) == coll
        if not pop_ok and nm[0] == "proj" and nm[1][0] == "call" and nm[1][1] in ("std::iter::Iterator::next", "std::iter::DoubleEndedIterator::next_back"):
            # a full traversal of the collected list (any direction)
            t0 = strip(nm[1][2][0])
            if t0[0] == "local":
                dd = [d for d in ds.defs().get(t0[1], []) if d.si is not None and d.node["rv"]["k"] == "use"]
                if len(dd) == 1:
                    t0 = strip(term_of(ds, dd[0].node["rv"]["op"]))
            chain = []
            while t0[0] == "call" and t0[2] and t0[1] in ("std::iter::IntoIterator::into_iter", "std::iter::Iterator::rev", "core::slice::iter", "std::vec::Vec::drain") + mir.TRANSPARENT_CALLS:
                chain.append(t0[1])
                t0 = strip(t0[2][0])
            pop_ok = _root_local_of(ds, t0) == coll
        par_ok = False
        for st in mir.subterms(recv):
            if st[0] == "call" and st[1].endswith("Element::get_child_mut") and strip(st[2][0]) == ("arg", par["root"]) and _is_tag_name(ds, st[2][1], par["event"]):
                par_ok = True
        g = [x for x in guards_of(ds, c.bb)]
        g_ok = all((x[0] == "enum" and x[3] == "Some") for x in g) and len(g) in (1, 2)
        okc = pop_ok and par_ok and g_ok
        why = "every collected name is popped and demoted on current.get_child_mut(tag name)" if okc else "pop source ok=%s, parent ok=%s, guards=%s" % (pop_ok, par_ok, [guard_s(x) for x in g])
    ob(r, "PM10c.collected-are-demoted", ("C01", "C03", "C06"), ds.name, okc, why, sco[0] if sco else mir.line_of(ds.span), "PM10c|demote")
    # returns the same root
    rets = [s for s in ds.assigns() if s.node["place"]["l"] == 0 and s.node["rv"]["k"] == "agg" and s.node["rv"]["variant"] == "Ok"]
    okr = len(rets) >= 1 and all(strip(term_of(ds, s_.node["rv"]["ops"][0])) in (("arg", par["root"]), ("local", par["root"])) for s_ in rets)   # every Ok exit
    if f.get("output", {}).get("adt") == "element::Element":
        # an infallible step hands the element back directly
        plain = [s_ for s_ in ds.assigns() if s_.node["place"]["l"] == 0 and not s_.node["place"]["p"]]
        okr = len(plain) == 1 and plain[0].node["rv"]["k"] == "use" and strip(term_of(ds, plain[0].node["rv"]["op"])) in (("arg", par["root"]), ("local", par["root"]))
        rets = plain
    if f["inputs"][par["root"] - 1].get("s", "").startswith("&mut "):
        # the step demotes on the caller's element in place: there is no element to hand back
        def unit(t):
            return (t[0] == "agg" and t[1] == "tuple" and not t[3]) or (t[0] == "const" and t[1] in (None, "()", ()))
        okr = all(unit(strip(term_of(ds, s_.node["rv"]["ops"][0]))) for s_ in rets)
    ob(r, "PM10.returns-same-element", ("C01", "C03", "C06"), ds.name, okr, "returns the element it was given" if okr else "Ok value is not the element parameter", rets[0] if rets else None, "PM10|ret")


def _root_local_of(b, t):
    t = strip(t)
    if t[0] == "local":
        return t[1]
    if t[0] == "call" and len(t) > 3:
        return t[3].node["dest"]["l"]
    return None


def _elementwise_copy(tp, src_local, blocks):
    """a loop over the whole list `src_local` (by value or by reference, no adapter) that pushes, unconditionally, the
    item itself or the item wrapped in a Necessity variant onto another fresh vector -> (push site, new list, tag)"""
    from .c16 import peel_iter
    for c in tp.calls():
        if cname(c.node) != "std::iter::Iterator::next" or c.bb not in blocks:
            continue
        coll, adapters = peel_iter(term_of(tp, c.node["args"][0]))
        if adapters or _root_local_of(tp, coll) != src_local:
            continue
        lp = find_loop_of(tp, c.bb)
        if lp is None:
            continue
        ps = [x for x in tp.calls() if cname(x.node) == "std::vec::Vec::push" and x.bb in lp[1]]
        if len(ps) != 1 or guards_of(tp, ps[0].bb, within=lp[1]):
            continue
        val = strip(term_of(tp, ps[0].node["args"][1]), mir.VALUE_PRESERVING)
        tag = None
        if val[0] == "agg" and val[1] == "necessity::Necessity":
            tag = val[2]
            val = strip(list(val[3].values())[0], mir.VALUE_PRESERVING)
        item_ok = val[0] == "proj" and val[1][0] == "call" and len(val[1]) > 3 and val[1][3] == c and \
            [e[1] if e[0] == "dc" else e[-1] for e in val[2] if e != "*"] == ["Some", "0"]
        dst = _root_local_of(tp, term_of(tp, ps[0].node["args"][0]))
        if item_ok and dst is not None and dst != src_local:
            return ps[0], dst, tag
    return None


def pm12_attributes(r, R):
    """every Ok(attr) key is collected; existing child -> merge_attr(all Mandatory); new child -> constructor"""
    tp = R.tp
    P = ("C01", "C03")
    if not hasattr(R, "tp_excl"):
        return
    for path, blocks in R.tp_excl.items():
        allnx = [c for c in tp.calls() if cname(c.node) == "std::iter::Iterator::next" and "attributes::Attributes" in self_ty(c.node).get("s", "")]
        nx = [c for c in allnx if c.bb in blocks]
        if not nx:
            # the keys may be collected once, before the paths split (every path to the removal passes the loop)
            nx = [c for c in allnx if tp.dominates(c.bb, R.tp_rc.bb)]
        if len(nx) != 1:
            ob(r, "PM12.attribute-loop", P, "%s: %s-child path" % (tp.name, path), False, "expected one loop over e.attributes(), found %d" % len(nx), R.tp_rc, "PM12|loop|%s" % path)
            continue
        n = nx[0]
        lp = find_loop_of(tp, n.bb)
        src = strip(term_of(tp, n.node["args"][0]))
        src_ok = _attr_source_exact(tp, src, R.tp_param["event"])
        pushes = [c for c in tp.calls() if cname(c.node) == "std::vec::Vec::push" and c.bb in lp[1]]
        okp = len(pushes) == 1
        why = "%d push(es) in the attribute loop" % len(pushes)
        vec_local = None
        if okp:
            c = pushes[0]
            g = guards_of(tp, c.bb, within=lp[1])
            val = strip(term_of(tp, c.node["args"][1]), mir.VALUE_PRESERVING)
            tag = None
            inner = val
            if val[0] == "agg" and val[1] == "necessity::Necessity":
                tag = val[2]
                inner = strip(list(val[3].values())[0], mir.VALUE_PRESERVING)
            key_ok = _attr_key_exact(tp, inner, n)
            want_tag = "Mandatory" if path == "existing" else None
            vec_local = _root_local_of(tp, term_of(tp, c.node["args"][0]))
            # the list may be re-wrapped element by element before it is used (names collected first, tagged afterwards)
            stages = [(c, vec_local)]
            for _ in range(2):
                st2 = _elementwise_copy(tp, vec_local, blocks)
                if st2 is None:
                    break
                c2, vec2, tag2 = st2
                if tag2 is not None:
                    tag = tag2 if tag is None else "twice"
                vec_local = vec2
                stages.append((c2, vec2))
            okp = not g and key_ok and tag == want_tag and src_ok
            why = "every Ok(attribute) of this tag pushes its key%s" % (" as Mandatory" if want_tag else "") if okp else \
                "attribute push: extra guards=%s key derives from the item=%s tag=%s iterates this tag's attributes=%s" % ([guard_s(x) for x in g], key_ok, tag, src_ok)
        ob(r, "PM12.attribute-collected", P + ("C06",), "%s: %s-child path" % (tp.name, path), okp, why, pushes[0] if pushes else n, "PM12|push|%s" % path)
        # the collected list reaches its consumer as collected: nothing but the loop's push ever takes it by unique reference
        if vec_local is not None and pushes:
            touch = []
            own = {st[0] for st in stages}
            lists = {st[1] for st in stages}
            for c in tp.calls():
                if c in own:
                    continue
                for a in c.node["args"]:
                    pa = mir.op_place(a)
                    if pa is not None and arg_ty(tp, a).get("s", "").startswith("&mut ") and tp.through_ref(pa)["l"] in lists:
                        touch.append(c)
            okt = not touch
            ob(r, "PM12.collected-list-untouched", P + ("C09", "C06"), "%s: %s-child path" % (tp.name, path), okt,
               "the collected attribute list is only appended to by the loop (document order, nothing removed)" if okt else
               "the collected attribute list is also modified by %s before it is used" % sorted({cname(c.node) for c in touch}), touch[0] if touch else pushes[0],
               "PM12|untouched|%s" % path)
        # consumer
        if path == "existing":
            m = [c for c in tp.calls() if cname(c.node).endswith("Element::merge_attr") and c.bb in blocks]
            ok = len(m) == 1 and _root_local_of(tp, term_of(tp, m[0].node["args"][1])) == vec_local and _is_removed_child(tp, R, m[0].node["args"][0])
            gm = [guard_s(x) for x in guards_of(tp, m[0].bb, within=blocks)] if len(m) == 1 else []
            ok = ok and not gm
            ob(r, "PM12.attributes-merged", P + ("C06",), "%s: existing-child path" % tp.name, ok, "the collected list is always merged into the removed child's attributes" if ok else
               "merge_attr is not applied unconditionally to (removed child, collected attributes)%s" % (" - it depends on %s" % gm if gm else ""), m[0] if m else n, "PM12|merge")
        else:
            m = [c for c in tp.calls() if cname(c.node).endswith("Element::new") and c.bb in blocks]
            ok = len(m) == 1 and _root_local_of(tp, term_of(tp, m[0].node["args"][1])) == vec_local and \
                _name_var(tp, term_of(tp, m[0].node["args"][0]), R) and not guards_of(tp, m[0].bb, within=blocks)
            ob(r, "PM12.new-child-constructed", P, "%s: new-child path" % tp.name, ok, "a new child is constructed from (tag name, collected attribute keys)" if ok else
               "Element::new is not applied to (tag name, collected attributes)", m[0] if m else n, "PM12|new")


def _local_from_attributes(tp, t, event_arg):
    if t[0] != "local":
        return False
    for d in tp.defs().get(t[1], []):
        if d.si is not None and d.node["k"] == "assign" and d.node["rv"]["k"] == "use":
            tt = strip(term_of(tp, d.node["rv"]["op"]))
            if any(st[0] == "call" and st[1] == "quick_xml::events::BytesStart::attributes" and _root_is_arg(strip(st[2][0]), event_arg) for st in mir.subterms(tt)):
                return True
    return False


def _is_removed_child(tp, R, operand):
    org = tp.origins(operand, transparent=lambda n: n is not R.tp_rc.node)
    return ("call", R.tp_rc) in org


def pm_reinsert(r, R):
    """the (re)built child is added back to the current element on every Ok path; the tag parser returns that element"""
    tp = R.tp
    if not hasattr(R, "tp_excl"):
        return
    adds = [c for c in tp.calls() if cname(c.node).endswith("Element::add_unique_child")]
    ok_blocks = [s.bb for s in tp.assigns() if s.node["place"]["l"] == 0 and s.node["rv"]["k"] == "agg" and s.node["rv"]["variant"] == "Ok"]
    ok = len(adds) == 1 and bool(ok_blocks) and all(tp.dominates(adds[0].bb, x) for x in ok_blocks) and not guards_of(tp, adds[0].bb)
    why = "add_unique_child calls: %d" % len(adds)
    if ok:
        c = adds[0]
        recv = strip(term_of(tp, c.node["args"][0]))
        child = tp.origins(c.node["args"][1], transparent=lambda n: n is not R.tp_rc.node and not cname(n).endswith("Element::new"))
        from_removed = ("call", R.tp_rc) in child
        from_new = any(o[0] == "call" and cname(o[1].node).endswith("Element::new") for o in child)
        ok = recv in (("arg", R.tp_param["root"]), ("local", R.tp_param["root"])) and from_removed and from_new
        why = "on every Ok path the merged (or new) child is added back to the current element, which is returned" if ok else \
            "re-insertion: onto current=%s derives from the removed child=%s / from the new child=%s" % (recv, from_removed, from_new)
        rets = [strip(term_of(tp, s.node["rv"]["ops"][0])) for s in tp.assigns() if s.node["place"]["l"] == 0 and s.node["rv"]["k"] == "agg" and s.node["rv"]["variant"] == "Ok"]
        if getattr(R, "tp_inplace", False):
            ok = ok and all(x[0] == "const" or (x[0] == "agg" and x[1] == "tuple" and not x[3]) for x in rets)     # Ok(()): updated in place
        else:
            ok = ok and all(x in (("arg", R.tp_param["root"]), ("local", R.tp_param["root"])) for x in rets)
    ob(r, "PM15.child-reinserted", ("C01", "C03", "C06"), tp.name, ok, why, adds[0] if adds else mir.line_of(tp.span), "PM15|reinsert")
    # recursion result replaces the child
    all_rec = [c for c in tp.calls() if c.node["callee"].get("path") == R.el.name]
    for path, blocks in R.tp_excl.items():
        rec = [c for c in all_rec if c.bb in blocks]
        region = blocks
        if not rec:
            # one recursive parse after the two paths joined
            rec = [c for c in all_rec if c.bb not in R.tp_excl["existing"] and c.bb not in R.tp_excl["new"]]
            region = set(tp.reachable()) - R.tp_excl["existing"] - R.tp_excl["new"]
        okr = len(rec) == 1
        why = "%d recursive parse(s) on the %s-child path" % (len(rec), path)
        if okr:
            c = rec[0]
            g = guards_of(tp, c.bb, within=region)
            rd_ok = len(g) == 1 and g[0][0] == "enum" and g[0][3] == "Some" and g[0][2] == ("arg", R.tp_param["reader"])
            child_in = tp.origins(c.node["args"][1], transparent=lambda n: n is not R.tp_rc.node and not cname(n).endswith("Element::new"))
            src_ok = ("call", R.tp_rc) in child_in if path == "existing" else any(o[0] == "call" and cname(o[1].node).endswith("Element::new") for o in child_in)
            okr = rd_ok and src_ok and _branch_result_reaches(tp, c, adds[0] if adds else None)
            why = "with a reader, the child's content is parsed into the child and the result is what gets re-inserted" if okr else \
                "recursive parse: guard is Some(reader)=%s, parses into the child=%s" % (rd_ok, src_ok)
        ob(r, "PM15.content-parsed-into-child", ("C01", "C03", "C06"), "%s: %s-child path" % (tp.name, path), okr, why, rec[0] if rec else R.tp_rc, "PM15|recurse|%s" % path)


def _branch_result_reaches(b, call, sink):
    if sink is None:
        return False
    org = b.origins(sink.node["args"][1], transparent=lambda n: cname(n) == "std::ops::Try::branch")
    return ("call", call) in org


def _entry_points(R):
    """public fns returning Result<Element, _> that call the event loop"""
    lib = R.lib
    out = []
    for path, f in sorted(lib.fns.items()):
        if f["pub"] and path in lib.bodies and f["output"].get("adt") == "std::result::Result":
            b = lib.bodies[path]
            if any(c.node["callee"].get("path") == R.el.name for c in b.calls()):
                out.append(b)
    return out


def _extraction_signature(R, b, el_call):
    """how the public entry turns the wrapper returned by the event loop into its result
    (inline, or through one crate helper that receives the event loop's Ok value)"""
    if not [c for c in b.calls() if cname(c.node) == "core::slice::first"]:
        for c in b.calls():
            hp = c.node["callee"].get("path")
            if c.node["callee"].get("local") and hp in R.lib.bodies and hp != R.el.name and c.node["args"]:
                org = b.origins(c.node["args"][0], transparent=lambda n: cname(n) == "std::ops::Try::branch")
                returned = c.node["dest"]["l"] == 0 or any(("call", c) in b.origins(s.node["rv"]["op"]) for s in b.assigns()
                                                              if s.node["place"]["l"] == 0 and s.node["rv"]["k"] == "use")
                if ("call", el_call) in org and returned:
                    h = R.lib.bodies[hp]
                    sig = _extraction_signature_in(R, h, None)
                    sig["helper"] = hp
                    return sig
    sig = _extraction_signature_in(R, b, el_call)
    sig["helper"] = None
    return sig


OPTION_COMBINATORS = ("std::option::Option::map", "std::option::Option::ok_or_else", "std::option::Option::ok_or", "std::ops::Try::branch",
                      "std::result::Result::map", "std::option::Option::and_then", "std::option::Option::cloned")


def _extraction_signature_in(R, b, el_call):
    """origin-based: the result is the removed first child: remove_child(wrapper, name of wrapper.children().first())
    unwrapped by into_inner_t, with `None` turned into an error (match or map/ok_or_else combinators)"""
    sig = {}
    firsts = [c for c in b.calls() if cname(c.node) == "core::slice::first"]
    rcs = [c for c in b.calls() if cname(c.node).endswith("Element::remove_child")]
    sig["first"] = len(firsts)
    sig["remove_child"] = len(rcs)
    if len(firsts) != 1 or len(rcs) != 1:
        return sig
    fs, rc = firsts[0], rcs[0]

    def through(n):
        return cname(n) in OPTION_COMBINATORS or cname(n) in mir.VALUE_PRESERVING or cname(n) in ("necessity::Necessity::into_inner_t", "necessity::Necessity::inner_t", "element::Element::children")
    # the value returned on the Ok path
    ret_ops = [s.node["rv"]["ops"][0] for s in b.assigns() if s.node["place"]["l"] == 0 and s.node["rv"]["k"] == "agg" and s.node["rv"].get("variant") == "Ok"]
    ret_calls = [c for c in b.calls() if c.node["dest"]["l"] == 0 and cname(c.node) in OPTION_COMBINATORS]
    srcs = set()
    for o in ret_ops:
        srcs |= b.origins(o, transparent=lambda n: n is not rc.node and through(n))
    for c in ret_calls:
        for a in c.node["args"][:1]:
            srcs |= b.origins(a, transparent=lambda n: n is not rc.node and through(n))
    sig["ok_value_is_removed_child"] = ("call", rc) in srcs and not any(o[0] == "call" and o[1] != rc for o in srcs)
    # into_inner_t is applied (as a call or as the function given to map)
    unwrap = any(cname(c.node) == "necessity::Necessity::into_inner_t" for c in b.calls()) or \
        any((o.get("const") or {}).get("ty", {}).get("fndef", "").endswith("into_inner_t") for s in b.sites() for o in mir.site_operands(s))
    sig["unwrapped_by_into_inner_t"] = unwrap
    # the name removed is the first child's name
    name_src = b.origins(rc.node["args"][1], transparent=lambda n: n is not fs.node and through(n))
    closure_reads_name = True
    for o in name_src:
        if o[0] == "agg":
            continue
    sig["removes_first_childs_name"] = ("call", fs) in name_src
    recv = b.origins(rc.node["args"][0], transparent=lambda n: cname(n) == "std::ops::Try::branch")
    frecv = b.origins(fs.node["args"][0], transparent=lambda n: el_call is None or n is not el_call.node)
    if el_call is not None:
        sig["from_event_loop_result"] = ("call", el_call) in recv
        sig["first_of_event_loop_result"] = ("call", el_call) in frecv
    else:
        sig["from_event_loop_result"] = any(o[0] == "arg" and o[1] == 1 for o in recv)
        sig["first_of_event_loop_result"] = any(o[0] == "arg" and o[1] == 1 for o in frecv)
    # the closure / arm that extracts the name reads only `.name`
    return sig


def pm13_extend(r, R):
    eps = _entry_points(R)
    P = ("C06", "C01", "C03")
    kinds = {}
    for b in eps:
        f = R.lib.fns[b.name]
        has_prev = [i for i, t in enumerate(f["inputs"]) if t.get("adt") == "element::Element"]
        kinds.setdefault("extend" if has_prev else "initial", []).append(b)
    ok = len(kinds.get("initial", [])) == 1 and len(kinds.get("extend", [])) == 1
    ob(r, "PM13.entry-points", P, "library", ok, "one initial-parse entry and one extension entry drive the same event loop" if ok else
       "entry points found: %s" % {k: [b.name for b in v] for k, v in kinds.items()}, key="PM13|entries")
    if not ok:
        return
    ini, ext = kinds["initial"][0], kinds["extend"][0]
    sigs = {}
    for b in (ini, ext):
        calls = [c for c in b.calls() if c.node["callee"].get("path") == R.el.name]
        if len(calls) != 1:
            ob(r, "PM13.single-engine-call", P, b.name, False, "calls the event loop %d times" % len(calls), mir.line_of(b.span), "PM13|calls|%s" % b.name)
            return
        sigs[b.name] = (calls[0], _extraction_signature(R, b, calls[0]))
    f = R.lib.fns[ext.name]
    # by value, full result type
    prev_i = [i for i, t in enumerate(f["inputs"]) if t.get("adt") == "element::Element"][0]
    by_val = f["inputs"][prev_i].get("refs") == 0
    ob(r, "PM13.previous-by-value", ("C06",), ext.name, by_val and f["output"].get("s", "").startswith("std::result::Result<element::Element<"),
       "the previous structure is consumed by value and the result is Result<Element, _>: after a failure no partial structure is observable" if by_val else
       "the previous structure is borrowed: a failed extension can leave it partially updated", mir.line_of(f["span"]), "PM13|byvalue")
    # wrapper: fresh element, previous root added as its only child, then the same engine
    call, sig = sigs[ext.name]
    w = strip(term_of(ext, call.node["args"][1]))
    wl = _root_local_of(ext, w) if w[0] != "local" else w[1]
    fresh = False
    for d in ext.defs().get(wl, []) if wl is not None else []:
        if d.si is None and cname(d.node).endswith("Element::new"):
            a = [strip(x) for x in (term_of(ext, y) for y in d.node["args"])]
            fresh = a[1][0] == "call" and a[1][1] == "std::vec::Vec::new"
    adds = [c for c in ext.calls() if cname(c.node).endswith("Element::add_unique_child")]
    add_ok = len(adds) == 1 and ext.dominates(adds[0].bb, call.bb) and strip(term_of(ext, adds[0].node["args"][1])) == ("arg", prev_i + 1) and \
        _root_local_of(ext, term_of(ext, adds[0].node["args"][0])) == wl and not guards_of(ext, adds[0].bb)
    ob(r, "PM13.wrapper", P, ext.name, fresh and add_ok, "fresh attribute-less wrapper + the previous root as its child, then the ordinary event loop (the new document is one more occurrence of the root)" if fresh and add_ok else
       "wrapper is fresh=%s, previous root added before the loop=%s" % (fresh, add_ok), adds[0] if adds else call, "PM13|wrapper")
    # initial: fresh wrapper without children
    icall, isig = sigs[ini.name]
    wi = strip(term_of(ini, icall.node["args"][1]))
    okf = wi[0] == "call" and wi[1].endswith("Element::new") and not [c for c in ini.calls() if cname(c.node).endswith("Element::add_unique_child")]
    ob(r, "PM13.initial-wrapper", ("C01", "C03", "C06"), ini.name, okf, "the initial parse starts from a fresh empty wrapper" if okf else "initial parse starts from %s" % term_s(wi)[:60], icall, "PM13|initial")
    def _good(sg):
        return all(v is True or (isinstance(v, int) and not isinstance(v, bool)) for k, v in sg.items() if k != "helper") and \
            sg.get("first") == 1 and sg.get("remove_child") == 1 and sg.get("ok_value_is_removed_child") is True
    same = _good(isig) and _good(sig) and {k: v for k, v in isig.items() if k != "helper"} == {k: v for k, v in sig.items() if k != "helper"}
    ob(r, "PM13.same-root-extraction", P, "%s / %s" % (ini.name, ext.name), same,
       "both entries return wrapper.remove_child(first child's name).into_inner_t() of the event loop's Ok value, after `?`" if same else
       "root extraction differs or is not recognised: %s vs %s" % (isig, sig), call, "PM13|extract")
    # same reader parameter handed through
    for b, (c, _) in ((ini, sigs[ini.name]), (ext, sigs[ext.name])):
        t = strip(term_of(b, c.node["args"][0]))
        ob(r, "PM13.reader-passed", ("C06", "C11"), b.name, t == ("arg", 1), "the caller's reader is handed to the event loop unchanged" if t == ("arg", 1) else
           "event loop receives %s" % term_s(t), c, "PM13|reader|%s" % b.name)


def pm15_monotone(r, R):
    """field write discipline of Element: standalone only ever set to false, text only to Some, count only incremented"""
    lib = R.lib
    P = ("C06", "C03", "C01")
    seen = {"standalone": [], "text": [], "count": [], "children": [], "name": []}
    for b in lib.real_bodies():
        if "std::clone::Clone" in b.name or "std::fmt::Debug" in b.name:
            continue
        for s in b.assigns():
            pl = b.canon(s.node["place"])
            fs = mir.place_fields(pl)
            if fs and fs[-1][0] == "element::Element" and fs[-1][1] in seen:
                seen[fs[-1][1]].append((b, s))
            # `Element { f: v, ..old }` writes exactly the fields it does not copy
            from .common import element_update, PseudoSite
            upd = element_update(b, s)
            if upd:
                for f, o in upd.items():
                    if f in seen:
                        seen[f].append((b, PseudoSite(s, {"k": "assign", "place": s.node["place"], "rv": {"k": "use", "op": o}, "span": s.node.get("span", {})})))
    for (b, s) in seen["standalone"]:
        rv = s.node["rv"]
        ok = rv["k"] == "use" and "const" in rv["op"] and rv["op"]["const"].get("bool") is False
        ob(r, "PM15.standalone-only-cleared", ("C06", "C01"), b.name, ok, "standalone is only ever set to false (a Vec field never becomes single again)" if ok else
           "standalone is assigned %s" % mir.pp.rv_s(rv)[:60], s, "PM15|standalone|%s" % b.name)
    for (b, s) in seen["text"]:
        rv = s.node["rv"]
        t = strip(term_of(b, rv["op"])) if rv["k"] == "use" else None
        var = rv.get("variant") if rv["k"] == "agg" else (t[2] if t and t[0] == "agg" else None)
        ok = var == "Some"
        ob(r, "PM15.text-only-set", ("C06", "C03", "C01"), b.name, ok, "text is only ever set to Some(_) (a text field is never dropped)" if ok else "text is assigned %s" % var, s, "PM15|text|%s" % b.name)
    for (b, s) in seen["count"]:
        t = strip(term_of(b, s.node["rv"]["op"])) if s.node["rv"]["k"] == "use" else ("?",)
        ok = t[0] == "binop" and t[1] == "Add" and strip(t[3]) == ("const", 1) and strip(t[2])[0] == "proj"
        ob(r, "PM15.count-only-incremented", ("C03", "C01"), b.name, ok, "the occurrence counter only grows by one" if ok else "count is assigned %s" % term_s(t)[:60], s, "PM15|count|%s" % b.name)
    ob(r, "PM15.name-never-rewritten", ("C06", "C01"), "library", not seen["name"], "an element's name is never reassigned" if not seen["name"] else
       "name assigned at %s" % [s.loc() for _, s in seen["name"]], key="PM15|name")
    ob(r, "PM15.children-never-replaced", ("C06", "C01"), "library", not seen["children"], "the children vector is never replaced wholesale" if not seen["children"] else
       "children assigned at %s" % [s.loc() for _, s in seen["children"]], key="PM15|children")
    # constructor values
    from .common import look_through_private
    for b in lib.real_bodies():
        if "std::clone::Clone" in b.name:
            continue
        b = look_through_private(lib, b)
        for s in b.assigns():
            rv = s.node["rv"]
            if rv["k"] == "agg" and rv.get("adt") == "element::Element":
                from .common import element_update
                if element_update(b, s) is not None:
                    continue    # an update of an existing element: its changed fields are judged by the field rules above
                vals = {f: strip(term_of(b, o)) for f, o in zip(rv["fields"], rv["ops"])}
                ok = vals["standalone"] == ("const", True) and vals["count"] == ("const", 1) and vals["text"][0] == "agg" and vals["text"][2] == "None" and \
                    vals["children"][0] == "call" and vals["children"][1] == "std::vec::Vec::new"
                ob(r, "PM15.constructor-defaults", ("C03", "C01"), b.name, ok, "new element: standalone, count 1, no text, no children" if ok else
                   "constructor defaults: standalone=%s count=%s text=%s" % (term_s(vals["standalone"]), term_s(vals["count"]), term_s(vals["text"])), s, "PM15|new")
                # every attribute of a new element is Mandatory
                a = vals["attributes"]
                mand = any(st[0] == "fn" and st[1].endswith("Necessity::Mandatory") for st in mir.subterms(a)) or \
                    (a[0] == "call" and a[1] in ("std::vec::Vec::new",))      # no attributes at all
                for st in mir.subterms(a):
                    if st[0] == "fn" or (st[0] == "agg" and st[1] in R.lib.bodies):
                        clo = R.lib.bodies.get(st[1])
                        if clo is not None:
                            mand = any(x.node["rv"]["k"] == "agg" and x.node["rv"].get("variant") == "Mandatory" and x.node["place"]["l"] == 0 for x in clo.assigns())
                ob(r, "PM15.new-attributes-mandatory", ("C03",), b.name, mand, "attributes of a first occurrence start as Mandatory" if mand else "attribute wrapping of a new element not recognised as Mandatory", s, "PM15|newattrs")


def pm16_tree_to_fields(r, R):
    """the renderer emits exactly one field per attribute and per child, and a text field iff text is present"""
    from . import renderer
    Rn = renderer.Renderer(R.lib)
    P = ("C01", "C03")
    ob(r, "A6.renderer-model", P, "library", Rn.ok, "renderer recognised" if Rn.ok else "renderer shape not recognised: %s" % Rn.problems, key="A6.model")
    if not Rn.ok:
        return
    b = Rn.body
    for what, loop in (("attribute", Rn.attr_loop), ("child", Rn.child_loop)):
        fields = {e.site.bb: e for e in Rn.emissions if e.kind == "field" and e.site.bb in loop["blocks"]}
        start = loop["some"]
        counts = set()

        def visit(bb, st, _f=fields, _h=loop["header"]):
            return None
        # count field emissions along every path of one iteration
        seen = set()
        stack = [(start, 0)]
        while stack:
            bb, n = stack.pop()
            if (bb, n) in seen or n > 3:
                continue
            seen.add((bb, n))
            if bb == loop["header"]:
                counts.add(n)
                continue
            if bb not in loop["blocks"]:
                counts.add(("left", n))
                continue
            n2 = n + (1 if bb in fields else 0)
            for s in b.succs(bb):
                # do not follow the recursion's inner structure; same function blocks only
                stack.append((s, n2))
        ok = counts == {1}
        ob(r, "PM16.one-field-per-%s" % what, P, b.name, ok, "every path through one iteration of the %s loop emits exactly one field" % what if ok else
           "field emissions per iteration: %s" % sorted(map(str, counts)), loop["next"], "PM16|%s" % what)
        # the field's tag/multiplicity tests read this item
        for e in fields.values():
            g = guards_of(b, e.site.bb, within=loop["blocks"])
            tag = [x for x in g if x[0] == "enum" and x[1] == "necessity::Necessity"]
            ty = e.field_type()
            opt = ty.startswith("Option<")
            want = "Optional" if opt else "Mandatory"
            okt = len(tag) == 1 and tag[0][3] == want
            ob(r, "PM16.option-iff-optional", P, "%s: %s field %r" % (b.name, what, e.template), okt,
               "`%s` is emitted exactly for %s items" % (ty, want) if okt else "field type `%s` is emitted under %s" % (ty, [guard_s(x) for x in g]), e.site,
               "PM16|tag|%s|%s" % (what, e.template))
            if what == "child":
                vec = "Vec<" in ty
                st = [x for x in g if x[0] == "call" and x[1].endswith("Element::standalone")] + [x for x in g if x[0] == "value" and "standalone" in term_s(x[1])]
                oks = len(st) == 1 and st[0][2 if st[0][0] == "value" else 3] == (not vec)
                ob(r, "PM16.vec-iff-multiple", P, "%s: child field %r" % (b.name, e.template), oks,
                   "`%s` is emitted exactly when standalone() is %s" % (ty, not vec) if oks else "multiplicity of `%s` decided by %s" % (ty, [guard_s(x) for x in g]), e.site,
                   "PM16|vec|%s" % e.template)
    tx = Rn.text_switch
    region = Rn.region_of_edge(tx["switch_bb"], tx["present"])
    fe = [e for e in Rn.emissions if e.kind == "field" and e.site.bb in region]
    other = [e for e in Rn.emissions if e.kind == "field" and e.site.bb not in region and e.site.bb not in Rn.attr_loop["blocks"] and e.site.bb not in Rn.child_loop["blocks"]]
    ob(r, "PM16.text-field-iff-text", P, b.name, len(fe) == 1 and not other, "a text field is emitted exactly when self.text is present" if len(fe) == 1 and not other else
       "text-group field emissions: %d inside, %d outside the is_some() region" % (len(fe), len(other)), tx["site"], "PM16|text")
    # String typing of text-only children: decided by contains_only_text(child)
    # the predicate is found by role: the crate function of the loop child that decides whether the child's own structs are rendered
    cot = []
    rec = [e for e in Rn.emissions if e.kind == "child-structs" and e.site.bb in Rn.child_loop["blocks"]]
    for e in rec:
        # the recursive call producing the appended text is the guarded site
        site_bb = e.value[3].bb if e.value[0] == "call" and len(e.value) > 3 else e.site.bb
        for g in guards_of(b, site_bb, within=Rn.child_loop["blocks"]):
            t = None
            if g[0] == "call":
                t = ("call", g[1], g[2]) + ((g[4],) if len(g) > 4 else ())
            elif g[0] == "flag":
                t = strip(term_of(b, {"l": g[1], "p": []}))
            if t is not None and t[0] == "call" and len(t) > 3:
                cb = R.lib.bodies.get(t[3].node["callee"].get("path"))
                if cb is not None and R.lib.fns.get(cb.name, {}).get("output", {}).get("prim") == "bool" and cb not in cot:
                    cot.append(cb)
    ob(r, "PM16.string-typing-predicate", P, b.name, len(cot) == 1, "whether a child gets its own struct is decided by %s(child)" % cot[0].name if len(cot) == 1 else
       "expected one crate predicate guarding the rendering of a child's own structs, found %s" % [c.name for c in cot], rec[0].site if rec else mir.line_of(b.span), "PM16|string-pred")
    if len(cot) == 1:
        c = cot[0]
        from .common import is_conjunction_of

        SLICE_VIEW = mir.TRANSPARENT_CALLS + ("std::vec::Vec::as_slice", "std::vec::Vec::iter", "core::slice::iter")

        def field_of(x):
            x = strip(x, SLICE_VIEW)
            fs = [e[3] for e in x[2] if e != "*" and e[0] == "f"] if x[0] == "proj" and x[1] == ("arg", 1) else None
            return fs[0] if fs and len(fs) == 1 else None

        def atom_of(t):
            m = t[1].rsplit("::", 1)[-1]
            if t[1] in ("binop::Eq", "binop::Ne") and len(t[2]) == 2:
                # `list.len() == 0` / a slice pattern `[]`: the length of a field compared with zero
                sides = [strip(x) for x in t[2]]
                zero = [x for x in sides if x == ("const", 0)]
                other = [x for x in sides if x != ("const", 0)]
                if len(zero) == 1 and len(other) == 1:
                    o = other[0]
                    inner = None
                    if o[0] == "unop" and o[1] == "PtrMetadata":
                        inner = o[2]
                    elif o[0] == "call" and o[1].rsplit("::", 1)[-1] == "len" and o[2]:
                        inner = o[2][0]
                    f = field_of(inner) if inner is not None else None
                    if f in ("attributes", "children"):
                        return ("%s.is_empty" % f, t[1] == "binop::Eq")
                return None
            a = strip(t[2][0], SLICE_VIEW) if t[2] else ("x",)
            fs = [e[3] for e in a[2] if e != "*" and e[0] == "f"] if a[0] == "proj" and a[1] == ("arg", 1) else None
            if not fs or len(fs) != 1:
                return None
            if m in ("is_some", "is_empty"):
                return ("%s.%s" % (fs[0], m), True)
            if m == "is_none":
                return ("%s.is_some" % fs[0], False)
            return None
        ok, why = is_conjunction_of(c, atom_of, ("text.is_some", "attributes.is_empty", "children.is_empty"))
        ob(r, "PM16.string-typing-condition", P, c.name, ok, "an element is typed String exactly when text.is_some() && attributes.is_empty() && children.is_empty()" if ok else
           "contains_only_text is not that conjunction: %s" % why, mir.line_of(c.span), "PM16|string")


def run_all(ctx):
    """evaluate the whole pack; each rule records itself only for the properties it is tagged with"""
    r = ctx.run
    R = Roles(ctx.lib)
    r.ob("PM.roles", "library", R.ok, "event loop = %s, tag parser = %s, demotion step = %s, snapshot = %s (found by role)" % (
        R.el.name, R.tp.name, R.ds.name, R.sn.name) if R.ok else "parser mechanism not recognised: %s" % "; ".join(R.problems), key="PM.roles")
    if not R.ok:
        return None
    pm1_event_classes(r, R)
    pm2_open_arms(r, R)
    pm5_seen_list(r, R)
    pm6_multiple(r, R)
    pm8_start_protocol(r, R)
    pm9_snapshot(r, R)
    pm10_demotion(r, R)
    pm12_attributes(r, R)
    pm_reinsert(r, R)
    pm13_extend(r, R)
    pm15_monotone(r, R)
    pm16_tree_to_fields(r, R)
    r.trust("quick-xml delivers one Start/Empty event per element, Text/CData for character data, in document order")
    return R
