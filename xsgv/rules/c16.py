"""C16 - hand-built element trees keep unique children and render like parsed ones (static part)."""
from .. import mir
from ..mir import strip, term_of, term_s
from . import pm
from .common import arg_ty, cname, is_mut_ref, method, self_ty
from .pm import guards_of, guard_s

EXPLANATION = (
    "A10: (R16.1) every insertion into an Element.children vector (direct push/insert/extend or through a crate helper that "
    "receives &mut self.children) is either guarded by the *absent* outcome of a name-only lookup of the inserted child's own "
    "name in the same element, or re-inserts the value just removed by remove_child(name); the equality used by a lookup is "
    "inspected - Necessity::eq reads the Optional/Mandatory tag and is not name-only. (R16.2) get_child / get_child_mut / "
    "remove_child select by `item.name == argument` and nothing else, and remove the element at the found index. (R16.3) "
    "set_child_optional re-inserts the removed value itself (subtree preserved) wrapped Optional. (R16.1b) adding a present name "
    "has no effect. (R16.4) the renderer emits one field per attribute / child and a text field iff text is present (PM16). "
    "NOT decided: the step-by-step model equivalence; well-formedness of the output for arbitrary names (C04).")

GROW = {"push", "insert", "extend", "append", "extend_from_slice", "push_within_capacity", "splice", "resize", "resize_with", "insert_mut"}


def _is_children_of(t, who=None):
    t = strip(t)
    if t[0] != "proj":
        return False
    fs = [e for e in t[2] if e != "*" and e[0] == "f"]
    return bool(fs) and fs[-1][1] == "element::Element" and fs[-1][3] == "children" and (who is None or t[1] == who)


def name_only_closure(lib, clo_name):
    cb = lib.bodies.get(clo_name)
    if cb is None:
        return False, "closure body not found"
    from .common import look_through_private
    cb = look_through_private(lib, cb)
    t = strip(term_of(cb, {"l": 0, "p": []}))
    if not (t[0] == "call" and t[1] in ("std::cmp::PartialEq::eq",) and len(t[2]) == 2):
        return False, "predicate is %s" % term_s(t)[:60]
    sides = [strip(x) for x in t[2]]
    item = [s for s in sides if s[0] == "proj" and [e[3] for e in s[2] if e != "*" and e[0] == "f"] == ["name"] and strip(s[1])[0] == "call" and strip(s[1])[1] == "necessity::Necessity::inner_t"]
    cap = [s for s in sides if s[0] == "proj" and s[1] == ("arg", 1) and not any(e != "*" and e[0] == "f" and e[1] == "element::Element" for e in s[2])]
    if len(item) == 1 and len(cap) == 1:
        return True, "item.inner_t().name == captured name"
    return False, "predicate compares %s" % [term_s(s)[:40] for s in sides]


ITER_MAKERS = ("core::slice::iter", "core::slice::iter_mut", "std::iter::IntoIterator::into_iter", "std::vec::Vec::iter", "std::vec::Vec::iter_mut",
               "std::vec::Vec::as_slice", "std::vec::Vec::as_mut_slice") + mir.TRANSPARENT_CALLS
ORDER_ONLY = ("std::iter::Iterator::rev",)


def peel_iter(t):
    """(collection term, adapters) of an iterator term: constructors are peeled, anything else is an adapter"""
    adapters = []
    t = strip(t)
    while t[0] == "call" and t[2]:
        if t[1] in ITER_MAKERS:
            pass
        elif t[1].startswith("std::iter::Iterator::") or t[1].startswith("std::iter::DoubleEndedIterator::"):
            adapters.append(t[1])
        else:
            break
        t = strip(t[2][0])
    return t, adapters


def run(ctx):
    r = ctx.run
    r.explanation = EXPLANATION
    lib = ctx.lib
    tree_contracts(r, lib)
    # R16.4 via PM16 (tagged for C01/C03 there; evaluate here under this property)
    R = pm.Roles(lib)
    saved = r.prop
    try:
        r.prop = "C01"
        pm.pm16_tree_to_fields(r, R) if R.ok else None
    finally:
        r.prop = saved
    from . import c09, c15, renderer
    c15.check_merge(r, lib)
    Rn = renderer.Renderer(lib)
    if Rn.ok:
        c09.source_rules(r, Rn)
    r.trust("Vec::remove(i) removes the element at i; Iterator::position returns the index of the first match")
    r.assume("children are unique by name before each operation (induction over the operation sequence; base case: Element::new has no children)")


TRUNCATING = ("skip", "take", "step_by", "skip_while", "take_while", "nth", "nth_back", "map_while", "advance_by", "array_chunks", "next_chunk")


def full_traversal(r, lib):
    """A11: no iterator over an element's children or attributes is shortened: every consumer of Element.children /
    Element.attributes (lookups, renderer, identifier map, name hints, demotion) sees the whole list"""
    n = 0
    for b in lib.real_bodies():
        for cs in b.calls():
            nm = cname(cs.node)
            m = nm.rsplit("::", 1)[-1]
            if not (nm.startswith("std::iter::") and m in TRUNCATING) or not cs.node["args"]:
                continue
            n += 1
            src = strip(term_of(b, cs.node["args"][0]))
            hit = None
            for st in mir.subterms(src):
                if st[0] == "proj":
                    fs = [e for e in st[2] if e != "*" and e[0] == "f" and e[1] == "element::Element" and e[3] in ("children", "attributes")]
                    if fs:
                        hit = fs[0][3]
                if st[0] == "call" and st[1].endswith(("Element::children", "Element::attributes")):
                    hit = st[1].rsplit("::", 1)[-1]
            bound = strip(term_of(b, cs.node["args"][1])) if len(cs.node["args"]) > 1 else ("none",)
            if hit is None and bound[0] == "const" and isinstance(bound[1], int) and not isinstance(bound[1], bool) and \
                    any(st[0] in ("arg", "local") or (st[0] == "proj") for st in mir.subterms(src)):
                hit = "data of the crate by the fixed bound %d" % bound[1]
            r.ob("A11.full-traversal", "%s: %s" % (b.name, m), hit is None, "`%s` shortens an iterator that is not over an element's children/attributes, by a computed bound" % m if hit is None else
                 "`%s` shortens the traversal of %s: the items beyond it get no field / identifier / demotion / name hint" % (m, hit if hit.startswith("data") else "an element's " + hit), site=cs,
                 key="A11|%s|%s|%s" % (b.name, m, hit))
    r.count("shortening iterator adapters inspected", n)


def tree_contracts(r, lib):
    """contracts of the tree operations the parser mechanism (PM pack) and hand-built trees rely on"""
    full_traversal(r, lib)
    # R16.2 lookups
    lookups = {}
    from .common import look_through_private
    for b0 in lib.real_bodies():
        if b0.kind == "closure":
            continue
        b = look_through_private(lib, b0) if lib.fns.get(b0.name, {}).get("impl_self", {}).get("adt") == "element::Element" else b0
        for cs in b.calls():
            nm = cname(cs.node)
            if nm in ("std::iter::Iterator::find", "std::iter::Iterator::position", "std::iter::Iterator::any", "std::iter::Iterator::rposition") and len(cs.node["args"]) == 2:
                src = strip(term_of(b, cs.node["args"][0]))
                over_children = any(_is_children_of(st, ("arg", 1)) for st in mir.subterms(src) if st[0] == "proj")
                clo = arg_ty(b, cs.node["args"][1]).get("closure")
                if over_children:
                    coll, adapters = peel_iter(src)
                    bad = [a for a in adapters if not (a in ORDER_ONLY and nm.endswith(("::find", "::any")))]
                    full = _is_children_of(coll, ("arg", 1)) and not bad
                    r.ob("R16.2.lookup-scans-all-children", b.name, full, "the lookup scans the whole children list" if full else
                         "the lookup does not scan self.children as a whole (adapters: %s): some children cannot be found" % [a.split("::")[-1] for a in bad], site=cs,
                         key="R16.2|fullscan|%s" % b.name)
                f0 = lib.fns.get(b0.name, {})
                is_lookup_method = len(f0.get("inputs", [])) == 2 and f0.get("impl_self", {}).get("adt") == "element::Element" and \
                    f0["inputs"][1].get("refs", 0) >= 1 and f0["inputs"][1].get("adt") != "element::Element" and f0.get("output", {}).get("adt") == "std::option::Option"
                if over_children and clo and not is_lookup_method and b is not b0:
                    # a lookup helper inlined into a method that is not a (self, name) lookup itself: judged in the helper's own body
                    continue
                if over_children and clo:
                    ok, why = name_only_closure(lib, clo)
                    cap = strip(term_of(b, cs.node["args"][1]))
                    cap_ok = cap[0] == "agg" and all(strip(v) == ("arg", 2) for v in cap[3].values())
                    lookups[b.name] = ok and cap_ok
                    r.ob("R16.2.lookup-by-name", b.name, ok and cap_ok, "selects the child by %s, the name being the caller's argument" % why if ok and cap_ok else
                         "lookup predicate is not name-only: %s (captures the name argument: %s)" % (why, cap_ok), site=cs, key="R16.2|%s" % b.name)
    # loop-form lookups: a method (&self, &name) -> Option<..> whose only comparisons are item.name == name
    for b in lib.real_bodies():
        if b.kind == "closure" or b.name in lookups:
            continue
        f = lib.fns.get(b.name, {})
        if f.get("impl_self", {}).get("adt") != "element::Element" or f.get("output", {}).get("adt") != "std::option::Option" or len(f.get("inputs", [])) != 2:
            continue
        cmps = [cs for cs in b.calls() if cname(cs.node) in ("std::cmp::PartialEq::eq", "std::cmp::PartialEq::ne")]
        if not cmps:
            continue
        good = True
        for cs in cmps:
            sides = [strip(term_of(b, a)) for a in cs.node["args"]]
            item = [x for x in sides if x[0] == "proj" and [e[3] for e in x[2] if e != "*" and e[0] == "f"] == ["name"] and
                    any(st[0] == "call" and st[1] == "std::iter::Iterator::next" for st in mir.subterms(x)) and
                    any(_is_children_of(st, ("arg", 1)) for st in mir.subterms(x) if st[0] == "proj")]
            arg = [x for x in sides if x == ("arg", 2)]
            good = good and len(item) == 1 and len(arg) == 1
        if good:
            lookups[b.name] = True
            r.ob("R16.2.lookup-by-name", b.name, True, "loop over self.children comparing only item.name with the caller's argument", site=cmps[0], key="R16.2|%s" % b.name)
    r.ob("R16.2.lookup-inventory", "library", len(lookups) >= 3, "%d name lookups over self.children (get_child, get_child_mut, remove_child): %s" % (len(lookups), sorted(lookups)),
         key="R16.2|inventory")
    # removal removes the found index of the same vector (D2 pattern restated for the addressed child)
    from . import panics
    for b0 in lib.real_bodies():
        b = look_through_private(lib, b0) if lib.fns.get(b0.name, {}).get("impl_self", {}).get("adt") == "element::Element" else b0
        for cs in b.calls():
            if cname(cs.node) in ("std::vec::Vec::remove", "std::vec::Vec::swap_remove") and _is_children_of(term_of(b, cs.node["args"][0])):
                ok, why = panics.discharge_call(r, b, cs)
                ok = ok and cname(cs.node) == "std::vec::Vec::remove" and lookups.get(b.name, False)
                r.ob("R16.2.removal-addresses-found-child", b.name, ok, "removes exactly the element whose index the name lookup returned" if ok else
                     "removal from children is not `remove(position(name lookup))`: %s" % why, site=cs, key="R16.2|remove|%s" % b.name)
    # R16.1 insertions
    name_only_fns = {n for n, v in lookups.items() if v}
    n_ins = 0
    from .. import desugar
    for b in lib.real_bodies():
        if "std::clone::Clone" in b.name or b.kind == "closure":
            continue
        b = desugar.desugar(lib, b)      # Option combinators / closures made explicit; helpers stay calls (they are insertion sites)
        for cs in b.calls():
            if not cs.node["args"]:
                continue
            a0 = cs.node["args"][0]
            if not is_mut_ref(arg_ty(b, a0)) or not _is_children_of(term_of(b, a0)):
                continue
            m = method(cs.node)
            local = cs.node["callee"].get("local")
            if not (m in GROW or local):
                continue
            if cname(cs.node).endswith("deref_mut"):
                continue
            n_ins += 1
            who = strip(term_of(b, a0))[1]
            val = strip(term_of(b, cs.node["args"][1])) if len(cs.node["args"]) > 1 else ("none",)
            child = strip(list(val[3].values())[0]) if val[0] == "agg" and val[1] == "necessity::Necessity" else val
            from .common import update_base
            ub = update_base(child)
            if ub is not None and "name" not in ub[1]:
                child = ub[0]       # `Element { position: .., ..child }` is still that child (same name, same subtree)
            # (b) re-insertion of the removed value
            org = b.origins(cs.node["args"][1], transparent=lambda n: cname(n) in ("necessity::Necessity::into_inner_t",))
            removed = [o for o in org if o[0] == "call" and cname(o[1].node).endswith("Element::remove_child")]
            ok = False
            why = ""
            if removed and child[0] == "call" and child[1] == "necessity::Necessity::into_inner_t":
                rc = removed[0][1]
                same_elem = strip(term_of(b, rc.node["args"][0])) == who
                g = guards_of(b, cs.bb)
                under_some = any(x[0] == "enum" and x[3] == "Some" and x[2][0] == "call" and x[2][3] == rc for x in g)
                ok = same_elem and under_some and rc.node["callee"].get("path") in name_only_fns | {rc.node["callee"].get("path")}
                why = "re-inserts the value just removed by remove_child(name) from the same element (the name is absent at that point)" if ok else \
                    "value derives from remove_child but not from the same element's Some outcome"
            else:
                # (a) guarded by absence of child's own name
                g = guards_of(b, cs.bb)
                for x in g:
                    look = None
                    absent = False
                    if x[0] == "call" and x[1] in ("std::option::Option::is_some", "std::option::Option::is_none"):
                        look = strip(x[2][0])
                        absent = (x[1].endswith("is_some") and x[3] is False) or (x[1].endswith("is_none") and x[3] is True)
                    elif x[0] == "enum" and x[1] == "std::option::Option":
                        look = x[2]
                        absent = x[3] == "None"
                    if look is None or not absent or look[0] != "call":
                        continue
                    callee_path = look[3].node["callee"].get("path")
                    if callee_path not in name_only_fns:
                        continue
                    recv = strip(look[2][0])
                    key = strip(look[2][1], mir.VALUE_PRESERVING)
                    key_ok = key[0] == "proj" and [e[3] for e in key[2] if e != "*" and e[0] == "f"] == ["name"] and (key[1] == child or strip(key[1]) == child)
                    if recv == who and key_ok:
                        ok = True
                        why = "guarded by `%s(&child.name)` being absent in the same element (name-only lookup)" % callee_path.split("::")[-1]
                if not ok:
                    why = "insertion into children is not guarded by a name-only absence test of the inserted child's name (guards: %s)" % [guard_s(x) for x in g]
            r.ob("R16.1.insert-only-if-name-absent", "%s: %s" % (b.name, cname(cs.node)), ok, why, site=cs,
                 key="R16.1|%s|%s|%s" % (b.name, cname(cs.node), "ok" if ok else "unguarded"))
    r.ob("R16.1.insertion-inventory", "library", n_ins >= 2, "%d insertion sites into Element.children" % n_ins, key="R16.1|inventory")
    # helper equality (informational contradiction check): a helper that tests membership with Necessity::eq is tag-sensitive
    # R16.1b adding a present name changes nothing: on the outcome "lookup found the name" of the guard that
    # protects the insertion, nothing may be called with a unique reference and no field may be written
    for b in lib.real_bodies():
        if not b.name.endswith("::add_unique_child"):
            continue
        done = False
        for bb in sorted(b.reachable()):
            tt = b.blocks[bb]["term"]
            if tt["k"] != "switch":
                continue
            sw = mir.switch_enum(b, bb)
            present = None
            if sw is not None and sw["enum"] == "std::option::Option":
                look = strip(term_of(b, sw["place"]))
                if look[0] == "call" and look[3].node["callee"].get("path") in name_only_fns:
                    present = mir.variant_target(sw, b, "Some")
            else:
                c = strip(term_of(b, tt["op"]))
                if c[0] == "call" and c[1] in ("std::option::Option::is_some", "std::option::Option::is_none"):
                    look = strip(c[2][0])
                    if look[0] == "call" and look[3].node["callee"].get("path") in name_only_fns:
                        present = tt["otherwise"] if c[1].endswith("is_some") else tt["targets"][0][1]
            if present is None:
                continue
            done = True
            region = {n for n in b.reachable() if (bb, present) in b.transitive_control_deps(n)} | {present}
            region = {n for n in region if (bb, present) in b.transitive_control_deps(n) or n == present}
            eff = []
            for x in region:
                t2 = b.blocks[x]["term"]
                if t2["k"] == "call" and any(is_mut_ref(arg_ty(b, a)) for a in t2["args"]):
                    eff.append(cname(t2))
            wr = [s_ for s_ in b.assigns() if s_.bb in region and s_.node["place"]["p"] and any(isinstance(e, dict) and "f" in e for e in b.canon(s_.node["place"])["p"])]
            ok = not eff and not wr
            r.ob("R16.1b.present-name-is-noop", b.name, ok, "when the name is present the function returns without modifying anything" if ok else
                 "when the name is already present the function still calls %s / writes %d field(s): adding a present name changes the tree" % (eff, len(wr)),
                 site=mir.Site(b, bb, None), key="R16.1b|noop")
        if not done:
            r.ob("R16.1b.present-name-is-noop", b.name, False, "no name-lookup test found in add_unique_child", site=mir.line_of(b.span), key="R16.1b|noop")
    # R16.3 mark-optional preserves the value
    for b in lib.real_bodies():
        if b.name.endswith("::set_child_optional"):
            b = desugar.desugar(lib, b)
            ins = [c for c in b.calls() if c.node["args"] and is_mut_ref(arg_ty(b, c.node["args"][0])) and _is_children_of(term_of(b, c.node["args"][0]))]
            ok = len(ins) == 1
            if ok:
                v = strip(term_of(b, ins[0].node["args"][1]))
                ok = v[0] == "agg" and v[2] == "Optional"
                inner = strip(list(v[3].values())[0]) if ok else ("x",)
                ok = ok and inner[0] == "call" and inner[1] == "necessity::Necessity::into_inner_t" and strip(inner[2][0])[0] == "proj" and \
                    strip(inner[2][0])[1][0] == "call" and strip(inner[2][0])[1][1].endswith("Element::remove_child")
                rc = strip(inner[2][0])[1] if ok else None
                ok = ok and strip(rc[2][1]) == ("arg", 2) and strip(rc[2][0]) == ("arg", 1)
            r.ob("R16.3.optional-preserves-subtree", b.name, ok, "re-inserts Optional(removed.into_inner_t()): the child's whole subtree is kept" if ok else
                 "set_child_optional does not re-insert exactly the removed value", site=ins[0] if ins else mir.line_of(b.span), key="R16.3|preserve")
    _insertion_contracts(r, lib, name_only_fns)
    _equality_contracts(r, lib)
    _merge_attr_contract(r, lib)
    _accessor_contracts(r, lib)


def _insertion_contracts(r, lib, name_only_fns):
    """R16.1d/R16.5: on the `name absent` outcome add_unique_child appends Mandatory(child) - nothing else decides;
    set_child_optional's re-insertion depends on nothing but the removal having found the child"""
    from .common import normal_form
    CONT = ("core::slice::contains", "std::vec::Vec::contains")
    for b0 in lib.real_bodies():
        short = b0.name.rsplit("::", 1)[-1]
        if short not in ("add_unique_child", "set_child_optional") or lib.fns.get(b0.name, {}).get("impl_self", {}).get("adt") != "element::Element":
            continue
        b = normal_form(lib, b0, also=lambda cb, t: cb.name not in name_only_fns)    # lookups stay calls: they are the guards
        ins = [cs for cs in b.calls() if cs.node["args"] and method(cs.node) in GROW and is_mut_ref(arg_ty(b, cs.node["args"][0])) and
               _is_children_of(term_of(b, cs.node["args"][0]), ("arg", 1))]
        if len(ins) != 1:
            r.ob("R16.1d.insertion-decided-by-name-only", b0.name, False, "expected one append to self.children, found %d" % len(ins), site=mir.line_of(b0.span), key="R16.1d|%s|count" % short)
            continue
        cs = ins[0]
        okm = method(cs.node) == "push"
        val = strip(term_of(b, cs.node["args"][1]))
        extra = []
        has_main = False
        for g in guards_of(b, cs.bb):
            if g[0] == "call" and g[1] in CONT and g[3] is False and _is_children_of(g[2][0], ("arg", 1)) and mir.same_place_term(g[2][1], val):
                continue        # `!children.contains(&value)`: implied by the absence of the name (R16.7/R16.8)
            look = None
            if g[0] == "call" and g[1] in ("std::option::Option::is_some", "std::option::Option::is_none"):
                look, absent = strip(g[2][0]), (g[1].endswith("is_some") and g[3] is False) or (g[1].endswith("is_none") and g[3] is True)
            elif g[0] == "enum" and g[1] == "std::option::Option":
                look, absent = g[2], g[3] == "None"
            if look is not None and look[0] == "call" and len(look) > 3:
                path = look[3].node["callee"].get("path")
                if short == "add_unique_child" and absent and path in name_only_fns and strip(look[2][0]) == ("arg", 1):
                    has_main = True
                    continue
                if short == "set_child_optional" and not absent and path.endswith("Element::<T>::remove_child") and strip(look[2][0]) == ("arg", 1):
                    has_main = True
                    continue
            extra.append(guard_s(g))
        ok = okm and has_main and not extra
        r.ob("R16.1d.insertion-decided-by-name-only", b0.name, ok,
             ("a child whose name is absent is always appended at the end" if short == "add_unique_child" else "a found child is always re-inserted") if ok else
             "the append to self.children (%s) also depends on %s%s" % (method(cs.node), extra, "" if has_main else " and not on the name lookup"), site=cs, key="R16.1d|%s" % short)
        if short == "add_unique_child":
            payload = strip(list(val[3].values())[0]) if val[0] == "agg" and val[1] == "necessity::Necessity" and val[3] else ("x",)
            from .common import update_base
            ub = update_base(payload)
            if ub is not None and ub[1] <= {"position"}:
                payload = ub[0]     # the child with only its position filled in
            okv = val[0] == "agg" and val[1] == "necessity::Necessity" and val[2] == "Mandatory" and payload == ("arg", 2)
            r.ob("R16.5.added-child-is-mandatory", b0.name, okv, "the new child is stored as Mandatory(child)" if okv else "the new child is stored as %s" % term_s(val)[:60], site=cs,
                 key="R16.5|mandatory")


def _true_requires(r, rule, b, required, what, key):
    """every way `b` returns true passes `required(call term)` being true"""
    problems = []
    n = 0
    for s in b.sites():
        if s.si is not None:
            nd = s.node
            if nd["k"] != "assign" or nd["place"]["l"] != 0 or nd["place"]["p"]:
                continue
            t = strip(term_of(b, nd["rv"]["op"])) if nd["rv"]["k"] == "use" else ("rv", nd["rv"]["k"])
        elif s.node["k"] == "call" and s.node["dest"]["l"] == 0:
            t = ("call", cname(s.node), [term_of(b, a) for a in s.node["args"]], s)
        else:
            continue
        n += 1
        if t[0] == "const" and t[1] in (False, 0, "false"):
            continue
        neg = False
        while t[0] == "unop" and t[1] == "Not":
            t, neg = strip(t[2]), not neg
        if t[0] == "call" and required(t) == (not neg):
            continue
        g = guards_of(b, s.bb)
        if any(x[0] == "call" and required(("call", x[1], x[2])) is not None and required(("call", x[1], x[2])) == x[3] for x in g):
            continue
        problems.append("%s: returns %s without %s" % (s.loc(), term_s(t)[:50], what))
    ok = n > 0 and not problems
    r.ob(rule, b.name, ok, "true is returned only when %s" % what if ok else ("; ".join(problems) or "no result assignment found"), site=mir.line_of(b.span), key=key)


def _equality_contracts(r, lib):
    """R16.7 Element::eq => same name; R16.8 Necessity::eq => equal payloads (membership tests of the insertion helper
    rely on both: a name that is absent can never compare equal to a stored child)"""
    def field_of_arg(t, field):
        t = strip(t, mir.VALUE_PRESERVING)
        return t[0] == "proj" and t[1][0] == "arg" and [e[3] for e in t[2] if e != "*" and e[0] == "f"] == [field] and t[1][1]

    def payload_of_arg(t, body=None):
        t = strip(t, mir.VALUE_PRESERVING)
        if t[0] == "local" and body is not None:
            # a binding of an or-pattern: every alternative must be the payload of the same argument
            alts = mir._alternatives(body, t[1], 0, True, frozenset()) or []
            got = {payload_of_arg(a) for a in alts}
            return got.pop() if len(got) == 1 else None
        if t[0] == "call" and t[1] in ("necessity::Necessity::inner_t",) and strip(t[2][0])[0] == "arg":
            return strip(t[2][0])[1]
        if t[0] == "proj" and t[1][0] == "arg" and all(e == "*" or e[0] == "dc" or (e[0] == "f" and e[1] == "necessity::Necessity") for e in t[2]):
            return t[1][1]
        return None

    def pair(f):
        def req(t):
            if t[1] in ("std::cmp::PartialEq::eq", "std::cmp::PartialEq::ne") and len(t[2]) == 2:
                a, c = f(t[2][0]), f(t[2][1])
                if a and c and {a, c} == {1, 2}:
                    return t[1].endswith("::eq")
            return None
        return req
    found = 0
    for b in lib.real_bodies():
        if b.name.endswith("as std::cmp::PartialEq>::eq") and b.name.startswith("<element::Element<"):
            found += 1
            _true_requires(r, "R16.7.element-equality-implies-same-name", b, pair(lambda t: field_of_arg(t, "name")), "self.name == other.name", "R16.7|eq")
        if b.name.endswith("as std::cmp::PartialEq>::eq") and b.name.startswith("<necessity::Necessity<"):
            found += 1
            _true_requires(r, "R16.8.necessity-equality-implies-equal-payload", b, pair(lambda t, _b=b: payload_of_arg(t, _b)), "the wrapped values are equal", "R16.8|eq")
    r.ob("R16.7.equality-inventory", "library", found == 2, "PartialEq impls of Element and Necessity inspected: %d" % found, key="R16.7|inventory")


def _merge_attr_contract(r, lib):
    """R16.9: merging an attribute list = storing merge(self.attributes, new list), always (no fast path, no other
    writer): the only operation through which attribute necessity changes is the public list merge (C15 table)"""
    from .common import element_update, look_through_private
    for b0 in lib.real_bodies():
        if not b0.name.endswith("::merge_attr") or lib.fns.get(b0.name, {}).get("impl_self", {}).get("adt") != "element::Element":
            continue
        b = look_through_private(lib, b0, also=lambda cb, t: not cb.name.endswith("merge_necessity"))
        writes = []
        for s_ in b.assigns():
            pl = b.canon(s_.node["place"])
            fs = mir.place_fields(pl)
            if fs and fs[-1] == ("element::Element", "attributes") and s_.node["rv"]["k"] == "use":
                writes.append((s_, s_.node["rv"]["op"]))
            upd = element_update(b, s_)
            if upd and "attributes" in upd:
                writes.append((s_, upd["attributes"]))
        ok = len(writes) == 1
        why = "%d writes of the attribute list in merge_attr" % len(writes)
        if ok:
            s_, op = writes[0]
            t = strip(term_of(b, op))
            okv = t[0] == "call" and t[1].endswith("merge_necessity") and len(t[2]) == 2
            if okv:
                a0, a1 = strip(t[2][0]), strip(t[2][1])
                okv = a0[0] == "proj" and a0[1] == ("arg", 1) and [e[3] for e in a0[2] if e != "*" and e[0] == "f"] == ["attributes"] and a1 == ("arg", 2)
            g = [guard_s(x) for x in guards_of(b, s_.bb)]
            ok = okv and not g
            why = "attributes = merge(self.attributes, given list), unconditionally" if ok else \
                "the stored attribute list is %s%s, not always merge(self.attributes, given list)" % (term_s(t)[:60], " under %s" % g if g else "")
        r.ob("R16.9.merge-attr-is-the-list-merge", b0.name, ok, why, site=writes[0][0] if writes else mir.line_of(b0.span), key="R16.9|merge_attr")


def _accessor_contracts(r, lib):
    """R16.10: the small accessors and mutators the mechanism rules refer to by name do what their names say:
    standalone()/count()/children() return that field, set_multiple() clears standalone and increment() adds one to
    count on every path, Necessity::inner_t/inner_t_mut/into_inner_t return the payload of whichever variant"""
    def method_of(adt, name):
        return [b for b in lib.real_bodies() if b.kind != "closure" and b.name.rsplit("::", 1)[-1] == name and
                lib.fns.get(b.name, {}).get("impl_self", {}).get("adt") == adt]

    def result_terms(b):
        out = []
        for s_ in b.sites():
            n = s_.node
            if s_.si is not None and n["k"] == "assign" and n["place"]["l"] == 0 and not n["place"]["p"]:
                rv = n["rv"]
                if rv["k"] == "use":
                    out.append(strip(term_of(b, rv["op"])))
                elif rv["k"] in ("ref", "rawptr"):
                    out.append(strip(term_of(b, rv["place"])))
                else:
                    out.append(("rv", rv["k"]))
            elif s_.si is None and n["k"] == "call" and n["dest"]["l"] == 0:
                out.append(("call", cname(n), [term_of(b, a) for a in n["args"]], s_))
        return out

    def is_self_field(t, field):
        return t[0] == "proj" and t[1] == ("arg", 1) and [e[3] for e in t[2] if e != "*" and e[0] == "f"] == [field]

    n = 0
    for name, field in (("standalone", "standalone"), ("count", "count"), ("children", "children")):
        for b in method_of("element::Element", name):
            n += 1
            rs = result_terms(b)
            ok = bool(rs) and all(is_self_field(t, field) for t in rs)
            r.ob("R16.10.accessor-returns-its-field", b.name, ok, "returns self.%s" % field if ok else "does not simply return self.%s: %s" % (field, [term_s(t)[:40] for t in rs]),
                 site=mir.line_of(b.span), key="R16.10|get|%s" % name)
    for name, field, want in (("set_multiple", "standalone", "false"), ("increment", "count", "+1")):
        for b in method_of("element::Element", name):
            n += 1
            good, other = set(), []
            for s_ in b.assigns():
                pl = b.canon(s_.node["place"])
                fs = mir.place_fields(pl)
                if not fs or fs[-1][0] != "element::Element":
                    continue
                t = strip(term_of(b, s_.node["rv"]["op"])) if s_.node["rv"]["k"] == "use" else ("rv",)
                if fs[-1][1] == field and pl["l"] == 1 and (
                        (want == "false" and t == ("const", False)) or
                        (want == "+1" and t[0] == "binop" and t[1] == "Add" and is_self_field(strip(t[2]), field) and strip(t[3]) == ("const", 1))):
                    good.add(s_.bb)
                else:
                    other.append(fs[-1][1])
            free = b.reach_from(0, avoid=good)
            ok = bool(good) and not (set(b.return_blocks()) & free) and not other
            r.ob("R16.10.mutator-effect", b.name, ok, "on every path self.%s %s, nothing else is written" % (field, "is set to false" if want == "false" else "grows by one") if ok else
                 "does not always %s (other fields written: %s)" % ("clear self.standalone" if want == "false" else "add one to self.count", other), site=mir.line_of(b.span), key="R16.10|set|%s" % name)
    for name in ("inner_t", "inner_t_mut", "into_inner_t"):
        for b in method_of("necessity::Necessity", name):
            n += 1
            rs = []
            for t in result_terms(b):
                if t[0] == "local":
                    alts = mir._alternatives(b, t[1], 0, True, frozenset())
                    rs += [strip(a) for a in alts] if alts else [t]
                else:
                    rs.append(t)
            variants = set()
            ok = bool(rs)
            for t in rs:
                if t[0] == "proj" and t[1] == ("arg", 1):
                    dc = [e[1] for e in t[2] if e != "*" and e[0] == "dc"]
                    fl = [e for e in t[2] if e != "*" and e[0] == "f"]
                    if len(dc) == 1 and len(fl) == 1 and fl[0][1] == "necessity::Necessity":
                        variants.add(dc[0])
                        continue
                ok = False
            ok = ok and variants == {"Optional", "Mandatory"}
            r.ob("R16.10.payload-accessor", b.name, ok, "returns the wrapped value of either variant" if ok else "does not return the payload of both variants (%s)" % sorted(variants),
                 site=mir.line_of(b.span), key="R16.10|payload|%s" % name)
    r.ob("R16.10.accessor-inventory", "library", n >= 8, "%d accessor/mutator bodies checked" % n, key="R16.10|inventory")
