"""C11 - output depends only on document structure, not on incidental detail (static part)."""
from .. import mir
from ..mir import strip, term_of, term_s
from . import c08, nondet, pm
from .common import arg_ty, cname, is_mut_ref, method

EXPLANATION = (
    "Non-interference by dependence: (R11.1) attribute values are never read - the only field of a quick-xml Attribute the "
    "library touches is `key`, and no unescape/decode call exists; (R11.2) character-data payload flows only into Element.text, "
    "and every read of Element.text is is_some()/is_none()/a discriminant test, so any non-empty content (text or CDATA) is "
    "indistinguishable downstream; (R11.3) Text and CData both set the flag unconditionally, Comment/Decl/PI/DocType arms have no "
    "effect (PM1); (R11.4) the library neither sets nor reads reader configuration, so expand_empty_elements only changes which of "
    "the two sibling arms runs; (R11.5) Start/Empty sibling agreement: same tag parser, same seen list, demotion invoked in both, "
    "and the demotion order is the children-vector order (no hash order: A1); (R11.6) the event buffer is a per-activation local "
    "that is only filled by the reader and cleared. NOT decided: full observational equivalence of <x/> and <x></x> for every "
    "history (hand argument in DESIGN.md section 5 F2), buffer-size independence of quick-xml itself.")


def _presence_only_uses(b, l0):
    """the shared reference `l0 = &element.text` (and every copy of it, also through tuple fields) is only ever
    handed to is_some/is_none or used for a discriminant test"""
    PRES = ("std::option::Option::is_some", "std::option::Option::is_none")

    def key(proj):
        out = []
        for e in proj:
            if isinstance(e, dict) and "i" in e and e.get("tuple"):
                out.append(e["i"])
            else:
                return None
        return tuple(out)
    aliases = {(l0, ())}
    work = [(l0, ())]
    uses = []
    bad = []
    steps = 0
    while work and steps < 200:
        steps += 1
        l, path = work.pop()

        def rel(p):
            """'alias' if place p is exactly this alias, 'inside' if it reads through it, 'outer' if it is an aggregate holding it"""
            if p is None or p["l"] != l:
                return None
            pj = p["p"]
            k = key(pj[:len(path)]) if len(pj) >= len(path) else None
            if k == path:
                rest = pj[len(path):]
                return ("alias", rest) if not rest else ("inside", rest)
            if key(pj) is not None and key(pj) == path[:len(pj)]:
                return ("outer", pj)
            return None
        for s in b.sites():
            nd = s.node
            if s.si is None:
                if nd["k"] == "call":
                    for a in nd["args"]:
                        rl = rel(mir.op_place(a))
                        if rl is None:
                            continue
                        if rl[0] == "alias" and cname(nd) in PRES:
                            uses.append(cname(nd).rsplit("::", 1)[-1])
                        else:
                            bad.append("passed to %s" % cname(nd))
                elif nd["k"] == "switch":
                    pass
                continue
            if nd["k"] != "assign":
                continue
            rv = nd["rv"]
            dst = nd["place"]
            ops = [rv.get(k2) for k2 in ("op", "l", "r", "o")] + list(rv.get("ops", []))
            for i, o in enumerate(rv.get("ops", [])):
                rl = rel(mir.op_place(o))
                if rl and rl[0] in ("alias", "outer") and rv["k"] == "agg" and rv.get("kind") == "tuple" and not dst["p"]:
                    na = (dst["l"], (i,) + (path if rl[0] == "alias" else path[len(key(rl[1])):]))
                    if rl[0] == "alias":
                        na = (dst["l"], (i,))
                    if na not in aliases:
                        aliases.add(na)
                        work.append(na)
                elif rl:
                    bad.append("stored into %s" % rv.get("kind", rv["k"]))
            if rv["k"] == "use":
                rl = rel(mir.op_place(rv["op"]))
                if rl and rl[0] == "alias" and (not dst["p"]):
                    na = (dst["l"], ())
                    if na not in aliases:
                        aliases.add(na)
                        work.append(na)
                elif rl and rl[0] == "outer" and not dst["p"]:
                    na = (dst["l"], path[len(key(rl[1])):])
                    if na not in aliases:
                        aliases.add(na)
                        work.append(na)
                elif rl:
                    bad.append("content read (%s)" % "use")
            elif rv["k"] == "discr":
                rl = rel(rv["place"])
                if rl and rl[0] == "inside" and rl[1] == ["deref"]:
                    uses.append("discriminant")
                elif rl:
                    bad.append("discriminant of something else")
            elif rv["k"] in ("ref", "rawptr"):
                rl = rel(rv["place"])
                if rl and rl[0] == "inside" and rl[1] == ["deref"] and not rv.get("mut") and not dst["p"]:
                    na = (dst["l"], ())
                    if na not in aliases:
                        aliases.add(na)
                        work.append(na)
                elif rl:
                    bad.append("re-borrowed in part")
            elif rv["k"] != "agg":
                for o in ops:
                    if isinstance(o, dict) and rel(mir.op_place(o)):
                        bad.append("used in %s" % rv["k"])
    if bad:
        return False, "text content is %s" % sorted(set(bad))
    if not uses:
        return False, "text content is handed to []"
    return True, "only used for %s" % sorted(set(uses))


def run(ctx):
    r = ctx.run
    r.explanation = EXPLANATION
    lib = ctx.lib
    R = pm.run_all(ctx)
    # R11.1
    bad = []
    n_reads = 0
    for b in lib.real_bodies():
        for s in b.sites():
            for p in mir.site_reads(s):
                for (adt, f) in mir.place_fields(b.canon(p)):
                    if adt and adt.endswith("attributes::Attribute"):
                        n_reads += 1
                        if f != "key":
                            bad.append((b, s, f))
            if s.si is None and s.node["k"] == "call":
                for a in s.node["args"]:
                    ty = arg_ty(b, a)
                    if ty.get("adt", "").endswith("attributes::Attribute") and method(s.node) not in ("drop", "drop_in_place"):
                        bad.append((b, s, "whole attribute passed to " + cname(s.node)))
    for (b, s, f) in bad:
        r.ob("R11.1.attribute-value-unread", b.name, False, "attribute `%s` is read: output can depend on attribute values" % f, site=s, key="R11.1|%s|%s" % (b.name, f))
    r.ob("R11.1.attribute-value-unread", "library", not bad, "%d reads of quick-xml Attribute fields, all of `key`" % n_reads, key="R11.1|summary", nontrivial=n_reads > 0)
    c08.forbidden_calls(r, lib, c08.LOSSY, "R11.1.no-unescape", "`%s` interprets attribute/text content")
    # R11.2 reads of Element.text
    n = 0
    for b in lib.real_bodies():
        if "std::clone::Clone" in b.name or "std::fmt::Debug" in b.name:
            continue
        for s in b.sites():
            for p in mir.site_reads(s):
                cp = b.canon(p)
                fs = mir.place_fields(cp)
                if not (fs and ("element::Element", "text") in fs):
                    continue
                n += 1
                node = s.node
                ok = False
                why = "unrecognised read of Element.text"
                if s.si is not None and node["k"] == "assign":
                    rv = node["rv"]
                    from .common import element_update
                    upd = element_update(b, s) if rv["k"] == "agg" else None
                    if upd is not None and "text" not in upd:
                        ok, why = True, "moved unchanged into the updated element"
                    elif rv["k"] == "discr":
                        ok, why = True, "discriminant test"
                    elif rv["k"] == "ref" and not rv["mut"] and not node["place"]["p"]:
                        ok, why = _presence_only_uses(b, node["place"]["l"])
                r.ob("R11.2.text-presence-only", b.name, ok, why, site=s, key="R11.2|%s|%s" % (b.name, "ok" if ok else why[:40]))
    r.ob("R11.2.text-reads", "library", n > 0, "%d reads of Element.text outside derived impls" % n, key="R11.2|count", nontrivial=True)
    # R11.4
    c08.forbidden_calls(r, lib, c08.CONFIG, "R11.4.reader-config-untouched", "`%s` sets or reads reader configuration")
    # the program hands the library a reader too: it must be a default-configured one (a stricter or looser reader makes
    # the output depend on comments, end-tag spelling, empty-element form ...)
    c08.forbidden_calls(r, ctx.bin, c08.CONFIG, "R11.4.reader-config-untouched[cli]", "`%s` configures the reader the program hands to the library")
    # R11.5 determinism of the demotion order
    nondet.scan_hash(r, lib)
    # R11.6 buffer
    if R is not None:
        b = R.el
        rd = R.ev.read
        if len(rd.node["args"]) > 1:
            p = mir.op_place(rd.node["args"][1])
            root = b.through_ref(p) if p is not None else None
            t = strip(term_of(b, rd.node["args"][1]))
            fresh = t[0] == "call" and t[1] == "std::vec::Vec::new"
            others = []
            if root is not None:
                for c in b.calls():
                    if c == rd:
                        continue
                    for a in c.node["args"]:
                        pa = mir.op_place(a)
                        if pa is not None and b.through_ref(pa)["l"] == root["l"] and cname(c.node) not in ("std::vec::Vec::clear",):
                            others.append(c)
            ok = fresh and not others
            r.ob("R11.6.event-buffer-local", b.name, ok, "the event buffer is a fresh local Vec, only filled by the reader and cleared" if ok else
                 "event buffer fresh=%s, other users=%s" % (fresh, [cname(c.node) for c in others]), site=rd, key="R11.6|buffer")
    # R11.6b the reader is only advanced event by event (and asked for its position for error reports)
    allowed = ("read_event_into", "read_event", "buffer_position", "error_position")
    n_uses = 0
    for b in lib.real_bodies():
        for cs in b.calls():
            if not any("quick_xml::Reader<" in arg_ty(b, a).get("s", "") for a in cs.node["args"]):
                continue
            n_uses += 1
            nm = cname(cs.node)
            ok = cs.node["callee"].get("local") or (nm.startswith("quick_xml::") and method(cs.node) in allowed) or nm in ("std::ops::DerefMut::deref_mut", "std::ops::Deref::deref")
            if not ok:
                r.ob("R11.6.reader-only-advanced", "%s: %s" % (b.name, nm), False,
                     "the reader is handed to `%s`: the library looks at the input other than through the event stream (buffering / configuration can become observable)" % nm,
                     site=cs, key="R11.6b|%s|%s" % (b.name, nm))
    r.ob("R11.6.reader-only-advanced", "library", True, "%d uses of the reader: only read_event_into / buffer_position and hand-over between the crate's own parser functions" % n_uses,
         key="R11.6b|summary", nontrivial=n_uses > 0)
    r.trust("quick-xml yields the same event kinds and names for the same bytes regardless of BufRead chunking; expand_empty_elements turns Empty into Start+End")
