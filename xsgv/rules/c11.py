"""C11 - output depends only on document structure, not on incidental detail (static part)."""
from .. import mir
from ..mir import strip, term_of, term_s
from . import c08, nondet, pm
from .common import arg_ty, cname, is_mut_ref, method

EXPLANATION = (
    "Non-interference by dependence: (R11.1) attribute values are never read - the only field of a quick-xml Attribute the "
    "library touches is `key`, and no unescape/decode call exists; (R11.2) character-data payload flows only into Element.text, "
    "and every read of Element.text is is_some()/is_none()/a discriminant test, so any non-empty content (text or CDATA) is "
    "indistinguishable downstream; (R11.3) Text and CData both set the flag unconditionally, Comment/Decl/PI/DocType arms have no "
    "effect (PM1); (R11.4) the library neither sets nor reads reader configuration, so expand_empty_elements only changes which of "
    "the two sibling arms runs; (R11.5) Start/Empty sibling agreement: same tag parser, same seen list, demotion invoked in both, "
    "and the demotion order is the children-vector order (no hash order: A1); (R11.6) the event buffer is a per-activation local "
    "that is only filled by the reader and cleared. NOT decided: full observational equivalence of <x/> and <x></x> for every "
    "history (hand argument in DESIGN.md section 5 F2), buffer-size independence of quick-xml itself.")


def run(ctx):
    r = ctx.run
    r.explanation = EXPLANATION
    lib = ctx.lib
    R = pm.run_all(ctx)
    # R11.1
    bad = []
    n_reads = 0
    for b in lib.real_bodies():
        for s in b.sites():
            for p in mir.site_reads(s):
                for (adt, f) in mir.place_fields(b.canon(p)):
                    if adt and adt.endswith("attributes::Attribute"):
                        n_reads += 1
                        if f != "key":
                            bad.append((b, s, f))
            if s.si is None and s.node["k"] == "call":
                for a in s.node["args"]:
                    ty = arg_ty(b, a)
                    if ty.get("adt", "").endswith("attributes::Attribute") and method(s.node) not in ("drop", "drop_in_place"):
                        bad.append((b, s, "whole attribute passed to " + cname(s.node)))
    for (b, s, f) in bad:
        r.ob("R11.1.attribute-value-unread", b.name, False, "attribute `%s` is read: output can depend on attribute values" % f, site=s, key="R11.1|%s|%s" % (b.name, f))
    r.ob("R11.1.attribute-value-unread", "library", not bad, "%d reads of quick-xml Attribute fields, all of `key`" % n_reads, key="R11.1|summary", nontrivial=n_reads > 0)
    c08.forbidden_calls(r, lib, c08.LOSSY, "R11.1.no-unescape", "`%s` interprets attribute/text content")
    # R11.2 reads of Element.text
    n = 0
    for b in lib.real_bodies():
        if "std::clone::Clone" in b.name or "std::fmt::Debug" in b.name:
            continue
        for s in b.sites():
            for p in mir.site_reads(s):
                cp = b.canon(p)
                fs = mir.place_fields(cp)
                if not (fs and ("element::Element", "text") in fs):
                    continue
                n += 1
                node = s.node
                ok = False
                why = "unrecognised read of Element.text"
                if s.si is not None and node["k"] == "assign":
                    rv = node["rv"]
                    if rv["k"] == "discr":
                        ok, why = True, "discriminant test"
                    elif rv["k"] == "ref" and not rv["mut"]:
                        users = [c for c in b.calls() if any(mir.op_place(a) is not None and mir.op_place(a)["l"] == node["place"]["l"] and not mir.op_place(a)["p"] for a in c.node["args"])]
                        names = sorted({cname(u.node) for u in users})
                        ok = bool(users) and all(x in ("std::option::Option::is_some", "std::option::Option::is_none") for x in names)
                        why = "only passed to %s" % names if ok else "text content is handed to %s" % names
                r.ob("R11.2.text-presence-only", b.name, ok, why, site=s, key="R11.2|%s|%s" % (b.name, "ok" if ok else why[:40]))
    r.ob("R11.2.text-reads", "library", n > 0, "%d reads of Element.text outside derived impls" % n, key="R11.2|count", nontrivial=True)
    # R11.4
    c08.forbidden_calls(r, lib, c08.CONFIG, "R11.4.reader-config-untouched", "`%s` sets or reads reader configuration")
    # R11.5 determinism of the demotion order
    nondet.scan_hash(r, lib)
    # R11.6 buffer
    if R is not None:
        b = R.el
        rd = R.ev.read
        if len(rd.node["args"]) > 1:
            p = mir.op_place(rd.node["args"][1])
            root = b.through_ref(p) if p is not None else None
            t = strip(term_of(b, rd.node["args"][1]))
            fresh = t[0] == "call" and t[1] == "std::vec::Vec::new"
            others = []
            if root is not None:
                for c in b.calls():
                    if c == rd:
                        continue
                    for a in c.node["args"]:
                        pa = mir.op_place(a)
                        if pa is not None and b.through_ref(pa)["l"] == root["l"] and cname(c.node) not in ("std::vec::Vec::clear",):
                            others.append(c)
            ok = fresh and not others
            r.ob("R11.6.event-buffer-local", b.name, ok, "the event buffer is a fresh local Vec, only filled by the reader and cleared" if ok else
                 "event buffer fresh=%s, other users=%s" % (fresh, [cname(c.node) for c in others]), site=rd, key="R11.6|buffer")
    # R11.6b the reader is only advanced event by event (and asked for its position for error reports)
    allowed = ("read_event_into", "read_event", "buffer_position", "error_position")
    n_uses = 0
    for b in lib.real_bodies():
        for cs in b.calls():
            if not any("quick_xml::Reader<" in arg_ty(b, a).get("s", "") for a in cs.node["args"]):
                continue
            n_uses += 1
            nm = cname(cs.node)
            ok = cs.node["callee"].get("local") or (nm.startswith("quick_xml::") and method(cs.node) in allowed) or nm in ("std::ops::DerefMut::deref_mut", "std::ops::Deref::deref")
            if not ok:
                r.ob("R11.6.reader-only-advanced", "%s: %s" % (b.name, nm), False,
                     "the reader is handed to `%s`: the library looks at the input other than through the event stream (buffering / configuration can become observable)" % nm,
                     site=cs, key="R11.6b|%s|%s" % (b.name, nm))
    r.ob("R11.6.reader-only-advanced", "library", True, "%d uses of the reader: only read_event_into / buffer_position and hand-over between the crate's own parser functions" % n_uses,
         key="R11.6b|summary", nontrivial=n_uses > 0)
    r.trust("quick-xml yields the same event kinds and names for the same bytes regardless of BufRead chunking; expand_empty_elements turns Empty into Start+End")
