"""A2: panic / abort / divergence inventory with checked discharge patterns,
loop progress witnesses and recursion witnesses."""
import re

from .. import fmt, mir
from ..mir import same_place_term, strip, term_of, term_s
from .common import arg_ty, cname, is_mut_ref, method, norm, rname, self_ty

# std callees that panic on caller-supplied values (by normalised declared path)
PANICKY_RE = re.compile(
    r"^std::option::Option::(unwrap|expect|unwrap_unchecked)$"
    r"|^std::result::Result::(unwrap|expect|unwrap_err|expect_err|unwrap_unchecked|into_ok)$"
    r"|^core::panicking::|^std::rt::|^std::panicking::|^std::process::(abort|exit)$|^std::panic::(panic_any|resume_unwind)$"
    r"|^std::intrinsics::(abort|unreachable|breakpoint)|^std::hint::unreachable_unchecked$"
    r"|^std::vec::Vec::(remove|insert|swap_remove|drain|split_off|splice|extend_from_within|with_capacity|reserve|reserve_exact|resize)$"
    r"|^std::string::String::(remove|insert|insert_str|drain|split_off|replace_range|truncate|with_capacity|reserve)$"
    r"|^core::str::(split_at|split_at_mut|repeat)$|^std::str::(repeat)$"
    r"|^core::slice::(split_at|split_at_mut|copy_from_slice|clone_from_slice|swap|copy_within|rotate_left|rotate_right|chunks|chunks_exact|chunks_mut|rchunks|windows|select_nth_unstable|select_nth_unstable_by|select_nth_unstable_by_key|swap_with_slice|fill_with|as_chunks|array_windows)$"
    r"|^std::slice::(repeat)$"
    r"|^std::collections::VecDeque::(insert|swap|split_off|drain|range|range_mut|rotate_left|rotate_right|with_capacity|reserve)$"
    r"|^std::ops::(Index::index|IndexMut::index_mut)$"
    r"|^std::cell::RefCell::(borrow|borrow_mut|replace|swap|take)$"
    r"|^std::iter::Iterator::(step_by)$|^std::char::(from_digit)$|^core::char::(from_digit)$|^core::char::methods::(to_digit|is_digit)$"
    r"|^core::num::(pow|abs|div_euclid|rem_euclid|next_power_of_two|ilog|ilog2|ilog10|isqrt|div_ceil|next_multiple_of|strict_\w+)$"
    r"|^std::thread::|^std::sync::(Mutex|RwLock)::|^std::alloc::(handle_alloc_error)$"
    r"|^std::mem::(zeroed|uninitialized|transmute)$|_unchecked(_mut)?$|::unwrap$|::expect$|^std::time::Instant::|^std::time::Duration::(from_secs_f\d+|mul_f\d+|div_f\d+)$")
# #[track_caller] callees that only forward the location / cannot panic by themselves
BENIGN_TRACK_CALLER = {"std::ops::FromResidual::from_residual", "std::convert::Into::into", "std::convert::From::from",
                       "log::__private_api::loc", "std::panic::Location::caller", "std::convert::TryInto::try_into",
                       "std::convert::TryFrom::try_from", "std::ops::Try::branch"}
TRUSTED_DEP_PREFIX = ("quick_xml::", "convert_string::", "log::", "clap::", "clap_builder::", "env_logger::")
INFINITE_ITER_RE = re.compile(r"std::iter::(Repeat|RepeatWith|Cycle|Successors|FromFn)\b|std::ops::RangeFrom\b|std::iter::sources::")


BOUNDING_RE = re.compile(r"std::iter::(Take|TakeWhile|MapWhile|Zip|Scan|Fuse|Peekable|StepBy)<")


def _is_unbounded_ty(s):
    """iterator type that can never report exhaustion: an unbounded source and no adapter that may end it"""
    return bool(INFINITE_ITER_RE.search(s)) and not BOUNDING_RE.search(s)


def _mutations_between(body, root_local, a_site, b_site):
    """sites on a path from a_site to b_site that may mutate the value rooted at `root_local`"""
    fwd = body.reach_from(a_site.bb)
    out = []
    # blocks that can reach b
    can = set()
    for bb in fwd:
        if b_site.bb in body.reach_from(bb):
            can.add(bb)
    for bb in sorted(can):
        blk = body.blocks[bb]
        t = blk["term"]
        s = mir.Site(body, bb, None)
        if s == a_site or s == b_site:
            continue
        if bb == a_site.bb and a_site.si is None:
            pass
        if t["k"] == "call":
            for a in t["args"]:
                if is_mut_ref(arg_ty(body, a)):
                    p = mir.op_place(a)
                    if p is not None and body.through_ref(p)["l"] == root_local:
                        out.append(s)
        for si, st in enumerate(blk["stmts"]):
            if st["k"] == "assign" and st["place"]["p"] and body.canon(st["place"])["l"] == root_local and bb not in (a_site.bb,):
                # field write through the root
                if any(isinstance(e, dict) and "f" in e for e in body.canon(st["place"])["p"]):
                    out.append(mir.Site(body, bb, si))
    return out


def _root_of(t):
    t = strip(t)
    while t[0] in ("proj", "ref", "call") and (t[0] != "call" or t[1] in mir.TRANSPARENT_CALLS):
        t = strip(t[1] if t[0] != "call" else t[2][0])
    return t


def _immutable_root(body, t):
    r = _root_of(t)
    if r[0] == "arg":
        return not is_mut_ref(body.local_ty(r[1]))
    if r[0] == "const":
        return True
    return False


def _some_payload_of(t, names):
    """t == (call <name in names>(..)) as Some .0  -> the call term; also through `?` on the Option:
    (branch(call ..)) as Continue .0"""
    t = strip(t)
    if t[0] == "proj" and t[1][0] == "call" and t[1][1] in names:
        pk = mir._strip_derefs(t[2])
        if len(pk) == 2 and pk[0][0] == "dc" and pk[0][1] == "Some":
            return t[1]
    if t[0] == "proj" and t[1][0] == "call" and t[1][1] == "std::ops::Try::branch" and t[1][2]:
        pk = mir._strip_derefs(t[2])
        inner = strip(t[1][2][0])
        if len(pk) == 2 and pk[0] == ("dc", "Continue") and inner[0] == "call" and inner[1] in names:
            return inner
    return None


def _const_int(t):
    t = strip(t)
    if t[0] == "const" and isinstance(t[1], int) and not isinstance(t[1], bool):
        return t[1]
    return None


def _range_next_item(body, t):
    """t is the Some payload of Iterator::next on a std::ops::Range<integer>"""
    c = _some_payload_of(t, ("std::iter::Iterator::next",))
    if c is None:
        return None
    site = c[3]
    sty = self_ty(site.node).get("s", "")
    if re.match(r"^std::ops::Range<(usize|u64|u32|u16|u8|i32|i64|isize)>$", sty):
        return c
    return None


def discharge_overflow_add(run, body, site):
    """-> (ok, why, assumption or None)"""
    cond = term_of(body, site.node["cond"])
    c = strip(cond)
    # cond is (binop XWithOverflow(l, r)).1
    if not (c[0] == "proj" and c[1][0] == "binop" and c[2] == (("i", 1),)):
        return False, "overflow check of unrecognised shape: %s" % term_s(c), None
    op, l, r = c[1][1], c[1][2], c[1][3]
    if op != "AddWithOverflow":
        return False, "arithmetic `%s` can overflow (panics in builds with overflow checks): %s" % (op, term_s(c[1])), None
    if _is_len(l) and _is_len(r):
        return True, "D1: sum of two collection lengths (each <= isize::MAX) cannot exceed usize::MAX: %s" % term_s(c[1]), None
    k = _const_int(r)
    if k is None or not (0 < k <= 65536):
        return False, "addition with a non-constant or large addend can overflow: %s" % term_s(c[1]), None
    en = _enumerate_index(body, l)
    if en:
        return True, "D1: %s where the left operand is the index of an Enumerate over a slice/vec iterator (index < len)" % term_s(c[1]), None
    if _range_next_item(body, l) is not None:
        return True, "D1: %s where the left operand is an item of Range::next (item < end <= MAX)" % term_s(c[1]), None
    sp = _some_payload_of(l, ("core::str::find", "core::str::rfind", "std::iter::Iterator::position", "std::iter::Iterator::rposition"))
    if sp is not None:
        return True, "D1: %s where the left operand is an index returned by %s (index < len <= isize::MAX)" % (term_s(c[1]), sp[1]), None
    # D6: x = x + 1 counter on a >=32 bit integer
    ls = strip(l)
    # find where the sum is stored
    stored = None
    nxt = body.succs(site.bb)
    if nxt:
        for st in body.blocks[nxt[0]]["stmts"]:
            if st["k"] == "assign" and st["rv"]["k"] == "use":
                p = mir.op_place(st["rv"]["op"])
                if p is not None and mir.op_place(site.node["cond"]) is not None and p["l"] == mir.op_place(site.node["cond"])["l"]:
                    stored = term_of(body, st["place"]) if st["place"]["p"] else ("local", st["place"]["l"])
                    stored_ty = st["place"].get("ty", {}).get("s")
                    break
    if stored is not None and stored_ty in ("u32", "i32", "u64", "i64", "usize", "isize", "u128", "i128") and k == 1:
        same = (ls == stored) or same_place_term(ls, stored)
        if same:
            what = term_s(stored)
            return True, "D6: counter `%s += 1` on %s" % (what, stored_ty), \
                "counter %s (%s) in %s is incremented once per occurrence/collision and never reaches %s::MAX (needs > 2^31 repetitions, i.e. an input of several GiB)" % (
                    what, stored_ty, body.name, stored_ty)
    return False, "addition can overflow and matches no discharge pattern: %s" % term_s(c[1]), None


LEN_CALLS = ("std::vec::Vec::len", "core::slice::len", "std::string::String::len", "core::str::len", "std::collections::VecDeque::len",
             "std::collections::HashMap::len", "std::collections::HashSet::len", "std::collections::BTreeMap::len")


def _is_len(t):
    t = strip(t)
    return t[0] == "call" and t[1] in LEN_CALLS


def _enumerate_index(body, t):
    t = strip(t)
    if t[0] == "proj" and t[1][0] == "call" and t[1][1] == "std::iter::Iterator::next":
        pk = mir._strip_derefs(t[2])
        sty = self_ty(t[1][3].node).get("s", "")
        if "std::iter::Enumerate<" in sty and not INFINITE_ITER_RE.search(sty) and len(pk) >= 3 and pk[0] == ("dc", "Some") and pk[-1] == ("i", 0):
            return True
    return False


def discharge_call(run, body, site):
    """panic-capable call -> (ok, why)"""
    t = site.node
    name = cname(t)
    args = [term_of(body, a) for a in t["args"]]
    if name in ("std::vec::Vec::with_capacity", "std::string::String::with_capacity", "std::collections::VecDeque::with_capacity") and len(args) == 1:
        a = strip(args[0])
        parts = [a]
        if a[0] == "binop" and a[1] in ("Add", "AddWithOverflow"):
            parts = [strip(a[2]), strip(a[3])]
        if all(_is_len(x) or (_const_int(x) is not None and _const_int(x) < (1 << 20)) for x in parts):
            return True, "capacity is a (sum of) length(s) of existing collections / a small constant"
        return False, "with_capacity(%s): capacity not bounded by existing collection sizes" % term_s(a)[:60]
    if name in ("std::vec::Vec::remove",) and len(args) == 2 and body.kind == "closure" and strip(args[1]) == ("arg", 2):
        # position(..).map(|index| vec.remove(index)): the closure runs only on the Some(index) of a position() over the same vector
        crate = body.crate
        for pb in crate.real_bodies():
            for cs in pb.calls():
                if cname(cs.node) == "std::option::Option::map" and len(cs.node["args"]) == 2 and arg_ty(pb, cs.node["args"][1]).get("closure") == body.name:
                    recv = strip(term_of(pb, cs.node["args"][0]))
                    clo = strip(term_of(pb, cs.node["args"][1]))
                    if recv[0] == "call" and recv[1] == "std::iter::Iterator::position" and clo[0] == "agg":
                        it = strip(recv[2][0])
                        vec_in_closure = strip(args[0])
                        captured = [strip(v) for v in clo[3].values()]
                        if it[0] == "call" and it[1] in ("core::slice::iter", "std::slice::iter") and any(same_place_term(it[2][0], c) for c in captured) and \
                                vec_in_closure[0] == "proj" and vec_in_closure[1] == ("arg", 1):
                            return True, "D2: index is the Some payload of position() over the captured vector, handed to this closure by Option::map"
        return False, "Vec::remove(index) in a closure whose index is not tied to a position() over the same vector"
    if name in ("std::vec::Vec::insert", "std::collections::VecDeque::insert") and len(args) == 3 and _const_int(strip(args[1])) == 0:
        return True, "insert at index 0 is in bounds for every length"
    if name in ("std::ops::Index::index", "std::ops::IndexMut::index_mut") and len(args) == 2 and strip(args[1])[0] != "agg" and \
            self_ty(t).get("adt") in ("std::vec::Vec",) or (name in ("std::ops::Index::index", "std::ops::IndexMut::index_mut") and len(args) == 2 and
                                                             _some_payload_of(args[1], ("std::iter::Iterator::position",)) is not None):
        # vec[i] with i = the Some payload of position() over the same vector, no mutation in between (D2 for indexing)
        pos = _some_payload_of(args[1], ("std::iter::Iterator::position",))
        if pos is not None and pos[2]:
            it = strip(pos[2][0])
            if it[0] == "call" and it[1] in ("core::slice::iter", "std::slice::iter", "core::slice::iter_mut") and it[2] and same_place_term(it[2][0], args[0]):
                root = _root_of(args[0])
                rl = root[1] if root[0] in ("arg", "local") else None
                muts = _mutations_between(body, rl, pos[3], site) if rl is not None else ["?"]
                if not muts:
                    return True, "D2: index is the Some payload of Iterator::position over the same vector (%s), no mutation in between" % term_s(strip(args[0]))
                return False, "index comes from position() but the vector may be mutated in between at %s" % muts
    if name in ("std::vec::Vec::remove", "std::vec::Vec::swap_remove") and len(args) == 2:
        pos = _some_payload_of(args[1], ("std::iter::Iterator::position",))
        if pos is not None and pos[2]:
            it = strip(pos[2][0])
            if it[0] == "call" and it[1] in ("core::slice::iter", "std::slice::iter", "core::slice::iter_mut") and it[2]:
                if same_place_term(it[2][0], args[0]):
                    root = _root_of(args[0])
                    rl = root[1] if root[0] in ("arg", "local") else None
                    muts = _mutations_between(body, rl, pos[3], site) if rl is not None else ["?"]
                    if not muts:
                        return True, "D2: index is the Some payload of Iterator::position over the same vector (%s), no mutation in between" % term_s(strip(args[0]))
                    return False, "Vec::remove index comes from position() but the vector may be mutated in between at %s" % muts
        return False, "%s(%s) with an index not proven in bounds" % (name.split("::")[-1], term_s(args[1])[:60])
    if name == "std::ops::Index::index" and len(args) == 2:
        sty = self_ty(t)
        idx = strip(args[1])
        recv = args[0]
        if idx[0] == "agg" and str(idx[1]).startswith("std::ops::Range"):
            kind = idx[1].split("::")[-1]
            if kind == "RangeFull":
                return True, "full range"
            is_str = sty.get("prim") == "str" or sty.get("adt") == "std::string::String"
            bounds = {k: strip(v) for k, v in idx[3].items()}
            oks = []
            for fld, b in bounds.items():
                oks.append(_bound_ok(body, recv, b, is_str, fld))
            if all(o[0] for o in oks) and (kind in ("RangeFrom", "RangeTo", "RangeToInclusive") or _ordered(bounds)):
                if not _immutable_root(body, recv):
                    return False, "slice bound proven against a receiver that is not an immutable borrow (%s)" % term_s(strip(recv))
                return True, "%s: %s" % ("D4" if is_str else "D3", "; ".join(o[1] for o in oks))
            return False, "range index %s on %s not proven in bounds / on a char boundary: %s" % (
                term_s(idx), sty.get("s"), "; ".join(o[1] for o in oks if not o[0]))
        if sty.get("adt") in ("std::collections::HashMap", "std::collections::BTreeMap"):
            return False, "map[key] panics when the key is absent"
        return False, "indexing %s with %s is not proven in bounds" % (sty.get("s"), term_s(idx))
    return False, "call to `%s`, which panics/aborts on some arguments, matches no discharge pattern" % (name or rname(t))


def _ordered(bounds):
    return False


def _bound_ok(body, recv, b, is_str, fld):
    # 0
    if b == ("const", 0):
        return True, "%s = 0" % fld
    if not is_str:
        # start/end = saturating_sub(len(S), _) or min(_, len(S))
        if b[0] == "call" and b[1] == "core::num::saturating_sub" and b[2]:
            ln = strip(b[2][0])
            if ln[0] == "call" and ln[1] in ("core::slice::len", "std::vec::Vec::len") and same_place_term(ln[2][0], recv):
                return True, "%s = len(same slice).saturating_sub(_) <= len" % fld
        if b[0] == "call" and b[1] in ("std::cmp::min", "std::cmp::Ord::min"):
            for a in b[2]:
                ln = strip(a)
                if ln[0] == "call" and ln[1] in ("core::slice::len", "std::vec::Vec::len") and same_place_term(ln[2][0], recv):
                    return True, "%s = min(_, len(same slice))" % fld
        if b[0] == "call" and b[1] in ("core::slice::len", "std::vec::Vec::len") and same_place_term(b[2][0], recv):
            return True, "%s = len(same slice)" % fld
        return False, "%s = %s" % (fld, term_s(b))
    # str: idx, or idx + len(needle) with idx = find(same str, ASCII needle)
    add = 0
    core = b
    if b[0] == "binop" and b[1] in ("Add", "AddWithOverflow"):
        k = _const_int(b[3])
        if k is None:
            return False, "%s = %s" % (fld, term_s(b))
        add = k
        core = strip(b[2])
    f = _some_payload_of(core, ("core::str::find", "core::str::rfind"))
    if f is None:
        if core[0] == "call" and core[1] in ("core::str::len", "std::string::String::len") and add == 0 and same_place_term(core[2][0], recv):
            return True, "%s = len(same str)" % fld
        return False, "%s = %s" % (fld, term_s(b))
    hay, needle = f[2][0], strip(f[2][1])
    if not same_place_term(hay, recv):
        return False, "%s computed by find() on a different string (%s)" % (fld, term_s(strip(hay)))
    if needle[0] == "const" and isinstance(needle[1], str) and needle[1] and all(ord(ch) < 128 for ch in needle[1]):
        if add in (0, len(needle[1])):
            return True, "%s = find(same str, %r)%s: a char boundary <= len" % (fld, needle[1], (" + %d" % add) if add else "")
        return False, "%s = find(..) + %d does not equal the needle length %d" % (fld, add, len(needle[1]))
    if add == 0:
        return True, "%s = find(same str, _): a char boundary" % fld
    return False, "%s = find(.., non-ASCII or non-constant needle) + %d may split a character" % (fld, add)


BENIGN_COMBINATOR_RE = re.compile(
    r"^std::(option::Option|result::Result)::(unwrap_or_else|unwrap_or_default|unwrap_or|map_or|map_or_else|ok_or_else|ok_or|and_then|map|map_err|or_else|or|"
    r"filter|zip|xor|get_or_insert_with|is_some_and|is_none_or|is_ok_and|is_err_and|inspect|inspect_err|cloned|copied|as_ref|as_mut|as_deref|take|replace)$"
    r"|^core::bool::(then|then_some)$")


def is_panicky_call(t):
    c = t["callee"]
    name = cname(t)
    if not name:
        return "indirect"
    if name in BENIGN_TRACK_CALLER or BENIGN_COMBINATOR_RE.search(name):
        return None
    if PANICKY_RE.search(name) or PANICKY_RE.search(rname(t)):
        return "denylist"
    if c.get("track_caller") or c.get("decl_track_caller"):
        if c.get("local") or c.get("resolved_local"):
            return None  # crate function: its body is scanned
        return "track_caller"
    return None


def scan_panics(run, crate, prefix="A2", only=None, exempt=()):
    """`only`: predicate selecting the bodies to scan; `exempt`: callee names judged by another rule"""
    n_sites = 0
    dep_calls = {}
    for body in crate.real_bodies():
        if only is not None and not only(body):
            continue
        found = 0
        for s in body.sites():
            n = s.node
            if s.si is not None:
                continue
            if n["k"] == "assert":
                found += 1
                n_sites += 1
                msg = n["msg"]
                key = "%s.assert|%s|%s" % (prefix, body.name, msg)
                if msg.startswith("Overflow(Add"):
                    ok, why, assumption = discharge_overflow_add(run, body, s)
                    if assumption:
                        run.assume(assumption)
                    run.ob("%s.overflow" % prefix, "%s: %s" % (body.name, msg), ok, why, site=s, key=key + "|" + norm(why)[:50])
                elif msg in ("NullPointerDereference", "MisalignedPointerDereference"):
                    ok = bool(s.span.get("exp"))
                    run.ob("%s.ub-check" % prefix, "%s: %s" % (body.name, msg), ok,
                           "D5: compiler-inserted pointer check inside a std macro expansion (%s) in safe code" % ",".join(s.span.get("macros", [])) if ok
                           else "raw pointer dereference check in user code", site=s, key=key)
                else:
                    ok = False
                    why = "`%s` assertion can fail at run time and matches no discharge pattern (%s)" % (msg, term_s(strip(term_of(body, n["cond"]))))
                    if msg in ("DivisionByZero", "RemainderByZero"):
                        pass
                    run.ob("%s.assert" % prefix, "%s: %s" % (body.name, msg), ok, why, site=s, key=key)
            elif n["k"] == "call":
                kind = is_panicky_call(n)
                name = cname(n)
                if name in exempt:
                    continue
                if kind is None:
                    if name.startswith(TRUSTED_DEP_PREFIX):
                        dep_calls[name] = dep_calls.get(name, 0) + 1
                    if n.get("t") is None and (n["callee"].get("path") in crate.bodies or n["callee"].get("resolved") in crate.bodies) and exempt:
                        pass    # a diverging helper of the same crate: its own body is scanned, its exit call judged by the exempting rule
                    elif n.get("t") is None:
                        run.ob("%s.diverge" % prefix, "%s: %s" % (body.name, name), False,
                               "call to `%s` never returns" % name, site=s, key="%s.diverge|%s|%s" % (prefix, body.name, name))
                    continue
                found += 1
                n_sites += 1
                if kind == "indirect":
                    run.ob("%s.indirect-call" % prefix, body.name, False, "call through a function pointer / trait object cannot be classified",
                           site=s, key="%s.indirect|%s" % (prefix, body.name))
                    continue
                ok, why = discharge_call(run, body, s)
                if not ok and name in ("std::option::Option::expect", "std::option::Option::unwrap") and n["args"]:
                    src = strip(term_of(body, n["args"][0]))
                    if src[0] == "call" and src[1] in ("std::iter::Iterator::find", "std::iter::Iterator::position", "std::iter::Iterator::find_map") and \
                            _is_unbounded_ty(arg_ty(body, src[3].node["args"][0]).get("s", "")):
                        ok, why = True, "D7: the searched iterator is unbounded (%s): the search returns Some or does not return (its termination is a loop obligation)" % \
                            arg_ty(body, src[3].node["args"][0]).get("s", "")[:60]
                if not ok:
                    # retry with private helpers looked through (an index computed by an extracted helper)
                    from .common import look_through_private
                    from .. import desugar
                    # a closure handed to an Option combinator is judged where it is applied: in the body that creates it
                    owner = crate.bodies.get(body.name.split("::{closure")[0], body) if body.kind == "closure" else body
                    ib = owner
                    for _ in range(3):
                        ib2 = desugar.desugar(crate, look_through_private(crate, ib), pipelines=False)
                        if ib2 is ib:
                            break
                        ib = ib2
                    if ib is not body:
                        for s2 in ib.calls():
                            if cname(s2.node) == name and s2.span.get("s") == s.span.get("s"):
                                ok2, why2 = discharge_call(run, ib, s2)
                                if ok2:
                                    ok, why = ok2, why2 + " (through an inlined private helper)"
                                    break
                run.ob("%s.panicky-call" % prefix, "%s: %s" % (body.name, name), ok, why, site=s,
                       key="%s.panicky-call|%s|%s|%s" % (prefix, body.name, name, "ok" if ok else norm(why)[:60]))
            elif n["k"] in ("tailcall",) or (n["k"] == "other"):
                run.ob("%s.unknown-terminator" % prefix, body.name, False, "terminator `%s` not modelled" % n.get("d", n["k"])[:60], site=s,
                       key="%s.unknown-term|%s" % (prefix, body.name))
        run.ob("%s.inventory" % prefix, body.name, True,
               "%d panic-capable construct(s) found in this body; each has its own obligation" % found,
               site=mir.line_of(body.span), key="%s.inventory|%s" % (prefix, body.name), nontrivial=found > 0)
    for name, k in sorted(dep_calls.items()):
        run.trust("%s (called at %d site(s)) returns or errs without panicking on any input" % (name, k))
    return n_sites


# --------------------------------------------------------------------------
# loops

POP_METHODS = {"std::vec::Vec::pop", "std::collections::VecDeque::pop_front", "std::collections::VecDeque::pop_back",
               "std::collections::BinaryHeap::pop", "std::collections::BTreeMap::pop_first", "std::collections::BTreeMap::pop_last"}
GROW_METHODS = {"push", "push_back", "push_front", "insert", "extend", "append", "extend_from_slice", "resize", "push_str"}
READER_METHODS = {"read_event_into", "read_event", "read_resolved_event_into", "read_resolved_event"}


def _none_arm_leaves(body, call_site, blocks, variant="None"):
    """does the `variant` outcome of the value returned by call_site leave the loop?"""
    nxt = body.succs(call_site.bb)
    if len(nxt) != 1:
        return False
    sw = mir.switch_enum(body, nxt[0])
    dest = call_site.node["dest"]["l"]
    if sw is None or body.canon(sw["place"])["l"] != dest:
        # while-let style: look one more block ahead
        return False
    tgt = mir.variant_target(sw, body, variant)
    if tgt is None:
        return False
    # the arm must not come back to the loop header without leaving
    return tgt not in blocks


def _recv_root(body, t):
    if not t["args"]:
        return None
    p = mir.op_place(t["args"][0])
    if p is None:
        return None
    return body.through_ref(p)


def _defined_in(body, local, blocks):
    for d in body.defs().get(local, []):
        if d.bb in blocks and (d.si is None or not d.node["place"]["p"]):
            # a whole-value (re)definition inside the loop
            if d.si is not None and d.node["k"] == "assign":
                return True
            if d.si is None:
                return True
    return False


def loop_witnesses(body, header, blocks):
    """progress witnesses of one natural loop: list of (kind, Site, valid, why)"""
    out = []
    for bb in sorted(blocks):
        t = body.blocks[bb]["term"]
        if t["k"] != "call":
            continue
        s = mir.Site(body, bb, None)
        name = cname(t)
        m = method(t)
        if name in ("std::iter::Iterator::next", "std::iter::DoubleEndedIterator::next_back"):
            root = _recv_root(body, t)
            sty = self_ty(t).get("s", "")
            if root is None:
                out.append(("next", s, False, "receiver not a place"))
                continue
            if INFINITE_ITER_RE.search(sty):
                # an unbounded integer range never ends by itself; it is a progress witness when its (pairwise distinct)
                # items reach a loop-exit test through injective steps only - then the test sees a fresh value every time
                if self_ty(t).get("adt") == "std::ops::RangeFrom" and _defined_in(body, root["l"], blocks) is False or \
                        (self_ty(t).get("adt") == "std::ops::RangeFrom" and (1 <= root["l"] <= body.arg_count)):
                    dep = False
                    for (a, b) in [(a, b) for a in blocks for b in body.succs(a) if b not in blocks]:
                        ta = body.blocks[a]["term"]
                        if ta["k"] == "switch" and a != body.succs(bb)[0]:
                            if any(x[0] == "call" and x[1] == s for x in body.origins(ta["op"], transparent=lambda tt: tt is not t)):
                                dep = True
                    lossy = _lossy_between(body, ("site", s), blocks, skip={body.succs(bb)[0]}) if dep else None   # not the range's own (never taken) exhaustion test
                    if dep and not lossy:
                        out.append(("range", s, True, "items of the unbounded range are pairwise distinct and feed the exit test injectively (fresh candidate on every iteration)"))
                    else:
                        out.append(("next", s, False, "iterator type %s is unbounded and %s" % (sty, "its items reach the exit test only through `%s`" % lossy if lossy else "its items do not feed an exit test")))
                    continue
                out.append(("next", s, False, "iterator type %s is unbounded" % sty))
                continue
            if _defined_in(body, root["l"], blocks) and not (1 <= root["l"] <= body.arg_count):
                out.append(("next", s, False, "iterator is (re)created inside this loop"))
                continue
            if not _none_arm_leaves(body, s, blocks):
                out.append(("next", s, False, "the None outcome does not leave the loop"))
                continue
            out.append(("next", s, True, "Iterator::next on %s created outside the loop; None leaves the loop" % sty))
        elif name in POP_METHODS:
            root = _recv_root(body, t)
            if root is None:
                continue
            grows = []
            for bb2 in blocks:
                t2 = body.blocks[bb2]["term"]
                if t2["k"] == "call" and method(t2) in GROW_METHODS:
                    r2 = _recv_root(body, t2)
                    if r2 is not None and mir.place_key(r2) == mir.place_key(root):
                        grows.append(mir.Site(body, bb2, None))
                # handing the container to another function by &mut also counts as possible growth
                elif t2["k"] == "call" and bb2 != bb:
                    for a in t2["args"]:
                        if is_mut_ref(arg_ty(body, a)):
                            p = mir.op_place(a)
                            if p is not None and mir.place_key(body.through_ref(p)) == mir.place_key(root):
                                grows.append(mir.Site(body, bb2, None))
            if grows:
                out.append(("pop", s, False, "container popped by the loop is also grown inside it at %s" % grows))
            elif not _none_arm_leaves(body, s, blocks):
                out.append(("pop", s, False, "the None outcome of pop does not leave the loop"))
            else:
                out.append(("pop", s, True, "%s shrinks a container that the loop does not grow; None leaves the loop" % name))
        elif m in READER_METHODS and name.startswith("quick_xml::"):
            # Result<Event, Error>: the error outcome must leave, Ok(Eof) must leave
            from .events import reader_result_shape
            sh = reader_result_shape(body, s)
            why = None
            if sh["form"] is None:
                why = "result of the reader call is neither matched directly nor `?`-propagated"
            else:
                err = sh["err_block"]
                if err is None or _returns_to(body, err, header, blocks):
                    why = "the error outcome of the reader call continues the loop"
                else:
                    sw2 = sh["event_switch"]
                    if sw2 is None or not sw2["enum"].endswith("::Event"):
                        why = "the Ok(event) is not matched by event kind directly"
                    else:
                        eof = mir.variant_target(sw2, body, "Eof")
                        if eof is None or _returns_to(body, eof, header, blocks):
                            why = "the Eof event does not leave the loop (the reader returns Eof forever)"
            out.append(("reader", s, why is None, why or "reader advances on every call; Err and Eof leave the loop"))
    # counter witness: `i = i + c` (checked or unchecked) with c > 0 on a local initialised outside the loop
    for bb in sorted(blocks):
        for si, st in enumerate(body.blocks[bb]["stmts"]):
            if st["k"] != "assign" or st["rv"]["k"] != "binop" or st["rv"]["op"] not in ("Add", "AddWithOverflow", "AddUnchecked"):
                continue
            k = _const_int(term_of(body, st["rv"]["r"]))
            lp = mir.op_place(st["rv"]["l"])
            if not k or k <= 0 or lp is None or lp["p"]:
                continue
            l = lp["l"]
            if _initialised_only_inside(body, l, blocks) or not body.locals[l]["ty"].get("prim", "").lstrip("ui").replace("size", "64").isdigit():
                continue
            # the sum must be stored back into the same local inside the loop
            tmp = st["place"]["l"]
            back = any(d.bb in blocks and d.si is not None and d.node["k"] == "assign" and d.node["rv"]["k"] == "use" and
                       mir.op_place(d.node["rv"]["op"]) is not None and mir.op_place(d.node["rv"]["op"])["l"] == tmp for d in body.defs().get(l, [])) or tmp == l
            if not back:
                continue
            s = mir.Site(body, bb, si)
            dep = False
            for (a, b) in [(a, b) for a in blocks for b in body.succs(a) if b not in blocks]:
                ta = body.blocks[a]["term"]
                if ta["k"] == "switch":
                    at = body.origins(ta["op"], transparent=lambda tt: True)
                    if any(x[0] == "op" and x[1] == s for x in at):
                        dep = True
            why_c = "strictly increasing counter _%d feeds the exit test (fresh candidate on every iteration)" % l if dep else "counter does not influence the loop's exit test"
            if dep:
                lossy = _lossy_between(body, l, blocks)
                if lossy:
                    dep = False
                    why_c = "the counter reaches the exit test only through `%s`: distinct counter values may give the same tested value, so the loop need not end" % lossy
            out.append(("counter", mir.Site(body, bb, None), dep, why_c))
    return out


INJECTIVE_CALLS = ("std::fmt::format", "std::fmt::Arguments::new", "core::fmt::rt::Argument::new_display", "core::fmt::rt::Argument::new_debug",
                   "std::hint::must_use", "std::string::String::push_str", "std::ops::Add::add")


def _lossy_between(body, counter, blocks, skip=()):
    """name of a call through which the counter must pass on its way to a loop-exit test and which is not known to keep
    distinct counter values distinct (formatting an integer into a string does; truncating, trimming, case folding,
    taking a prefix do not); None if every exit test sees the counter through injective steps only"""
    from ..mir import VALUE_PRESERVING

    def walk(t, seen, depth=0):
        """-> (reaches the counter, first non-injective call on such a path or None)"""
        if depth > 25:
            return False, None
        if isinstance(counter, tuple) and t[0] == "call" and len(t) > 3 and t[3] == counter[1]:
            return True, None
        if t[0] == "local":
            if t[1] == counter:
                return True, None
            if t[1] in seen:
                return False, None
            alts = mir._alternatives(body, t[1], 0, True, frozenset()) or []
            hit, bad = False, None
            for a in alts:
                h, b_ = walk(a, seen | {t[1]}, depth + 1)
                if h:
                    hit = True
                    bad = bad or b_
            return hit, bad
        if t[0] in ("ref", "discr", "cast", "unop"):
            return walk(t[1] if t[0] != "unop" else t[2], seen, depth + 1)
        if t[0] == "proj":
            return walk(t[1], seen, depth + 1)
        if t[0] == "binop":
            h1, b1 = walk(t[2], seen, depth + 1)
            h2, b2 = walk(t[3], seen, depth + 1)
            return h1 or h2, b1 or b2
        if t[0] == "agg":
            hit, bad = False, None
            for v in t[3].values():
                h, b_ = walk(v, seen, depth + 1)
                if h:
                    hit, bad = True, bad or b_
            return hit, bad
        if t[0] == "call":
            hit, bad = False, None
            for a in t[2]:
                h, b_ = walk(a, seen, depth + 1)
                if h:
                    hit, bad = True, bad or b_
            if hit and bad is None and t[1] not in VALUE_PRESERVING and t[1] not in INJECTIVE_CALLS and not t[1].startswith("core::fmt::rt::") and \
                    not t[1].endswith(("::contains", "::contains_key", "::eq", "::ne", "::lt", "::le", "::gt", "::ge", "::is_some", "::is_none", "::get")):
                bad = t[1]
            return hit, bad
        return False, None
    worst = None
    for a in blocks:
        ta = body.blocks[a]["term"]
        if ta["k"] != "switch" or all(b in blocks for b in body.succs(a)) or a in skip:
            continue
        root = strip(term_of(body, ta["op"]))
        while root[0] == "unop" and root[1] == "Not":
            root = strip(root[2])
        if root[0] == "call":
            # the outermost call is the test itself (membership in the finite list, whatever it is called); what matters
            # is how its arguments are derived from the counter
            hit, bad = False, None
            for a in root[2]:
                h, b_ = walk(a, frozenset())
                if h:
                    hit, bad = True, bad or b_
        else:
            hit, bad = walk(root, frozenset())
        if hit and bad:
            worst = bad
        elif hit:
            return None     # some exit test sees the counter injectively
    return worst


def _def_block_of_tuple(body, assert_term):
    p = mir.op_place(assert_term["cond"])
    ds = body.defs().get(p["l"], [])
    return ds[0].bb if ds else -2


def _initialised_only_inside(body, local, blocks):
    ds = body.defs().get(local, [])
    return all(d.bb in blocks for d in ds)


def _returns_to(body, start, header, blocks):
    """can control come back to the loop header from `start` while staying inside the loop?"""
    if start not in blocks:
        return False
    return header in body.reach_from(start, avoid=set(body.reachable()) - set(blocks)) or start == header


SEARCHES = ("std::iter::Iterator::find", "std::iter::Iterator::position", "std::iter::Iterator::any", "std::iter::Iterator::all", "std::iter::Iterator::find_map")


def _unbounded_searches(body):
    """calls of find/position/any/all/find_map whose source contains an unbounded iterator (a..) / repeat / cycle ..."""
    out = []
    for cs in body.calls():
        if cname(cs.node) in SEARCHES and cs.node["args"]:
            ty = arg_ty(body, cs.node["args"][0]).get("s", "")
            if INFINITE_ITER_RE.search(ty):
                out.append(cs)
    return out


def scan_loops(run, crate, prefix="A2"):
    n = 0
    for body in crate.real_bodies():
        searches = _unbounded_searches(body) if body.kind != "closure" else []
        if searches:
            # the loop is inside std: make it explicit (normal form) and demand the same witnesses as for a written loop
            from .common import normal_form
            nf = normal_form(crate, body)
            for cs in searches:
                n += 1
                cand = []
                for header, blocks in sorted(nf.loops().items()):
                    nx = [c for c in nf.calls() if c.bb in blocks and cname(c.node) == "std::iter::Iterator::next" and c.node["callee"].get("synthetic") and
                          INFINITE_ITER_RE.search(self_ty(c.node).get("s", "")) and (c.node.get("span") or {}).get("s") == (cs.node.get("span") or {}).get("s")]
                    if nx:
                        cand.append((header, blocks))
                ok, why = False, "the search over an unbounded iterator could not be made explicit: nothing shows that it ends"
                if cand:
                    header, blocks = min(cand, key=lambda hb: len(hb[1]))
                    ws = loop_witnesses(nf, header, blocks)
                    valid = [w for w in ws if w[2]]
                    ok = bool(valid)
                    why = "the search ends: %s" % "; ".join("%s (%s)" % (w[0], w[3]) for w in valid[:2]) if ok else \
                        "search over an unbounded iterator without a termination witness (%s)" % ("; ".join(w[3] for w in ws) or "no candidate")
                run.ob("%s.loop-progress" % prefix, "%s: %s over an unbounded iterator" % (body.name, method(cs.node)), ok, why, site=cs,
                       key="%s.loop|%s|unbounded-%s|%s" % (prefix, body.name, method(cs.node), "ok" if ok else "no-progress"))
        for header, blocks in sorted(body.loops().items()):
            n += 1
            ws = loop_witnesses(body, header, blocks)
            valid = [w for w in ws if w[2]]
            site = mir.Site(body, header, None)
            # all cycles through the header must pass a valid witness
            avoid = {w[1].bb for w in valid} | (set(body.reachable()) - set(blocks))
            cyc = False
            if header not in avoid:
                for s in body.succs(header):
                    if s in avoid:
                        continue
                    if header in body.reach_from(s, avoid=avoid) or s == header:
                        cyc = True
            exits = [(a, b) for a in blocks for b in body.succs(a) if b not in blocks]
            ok = bool(valid) and not cyc and bool(exits)
            if ok:
                why = "every cycle passes %s" % "; ".join("%s@%s (%s)" % (w[0], w[1].loc(), w[3]) for w in valid[:3])
            elif not exits:
                why = "loop has no exit edge"
            elif not valid:
                why = "no progress witness in loop (candidates: %s)" % ("; ".join("%s@%s rejected: %s" % (w[0], w[1].loc(), w[3]) for w in ws) or "none")
            else:
                why = "a cycle through the loop header avoids every progress witness (%s)" % "; ".join("%s@%s" % (w[0], w[1].loc()) for w in valid)
            loc = _loop_line(body, header, blocks)
            kinds = "+".join(sorted({w[0] for w in valid})) or "none"
            run.ob("%s.loop-progress" % prefix, "%s loop@%s" % (body.name, loc), ok, why, site=loc,
                   key="%s.loop|%s|%s|%s" % (prefix, body.name, kinds if ok else "no-progress", _loop_sig(body, blocks)))
    return n


def _loop_line(body, header, blocks):
    best = None
    for bb in blocks:
        for si in list(range(len(body.blocks[bb]["stmts"]))) + [None]:
            sp = mir.Site(body, bb, si).span
            s = sp.get("s", "")
            if s.startswith("src/"):
                try:
                    ln = int(s.split(":")[1])
                except Exception:
                    continue
                if best is None or ln < best[0]:
                    best = (ln, s.split(":")[0])
    return "%s:%d" % (best[1], best[0]) if best else "?"


def _loop_sig(body, blocks):
    """line-independent signature of a loop: sorted multiset of callee method names"""
    ms = sorted(method(body.blocks[b]["term"]) for b in blocks if body.blocks[b]["term"]["k"] == "call")
    import hashlib
    return hashlib.sha1(",".join(ms).encode()).hexdigest()[:8]


# --------------------------------------------------------------------------
# recursion

def _element_child_item(body, t, depth=0):
    """does term t derive from an item of an iterator over an `Element.children` vector
    (or a sorted clone of it)?  i.e. is it a strict sub-tree of the receiver"""
    for st in mir.subterms(t):
        if st[0] == "call" and st[1] == "std::iter::Iterator::next":
            site = st[3]
            sty = self_ty(site.node).get("s", "")
            if "Necessity<element::Element<" in sty and ("slice::Iter" in sty or "vec::IntoIter" in sty):
                return site
    return None


def scan_recursion(run, crate, prefix="A2"):
    sccs = crate.sccs()
    for comp in sccs:
        comp_set = set(comp)
        # every recursive edge needs a descent witness
        for name in comp:
            body = crate.bodies[name]
            for cs in body.calls():
                t = cs.node
                callee = None
                for k in ("resolved", "path"):
                    if t["callee"].get(k) in comp_set:
                        callee = t["callee"][k]
                if callee is None:
                    continue
                ok, why = _descent_witness(crate, body, cs, callee, comp_set)
                run.ob("%s.recursion" % prefix, "%s -> %s" % (name, callee), ok, why, site=cs,
                       key="%s.recursion|%s|%s|%s" % (prefix, name, callee, "ok" if ok else "no-witness"))
    # fan-out: inside a loop over children, at most one recursive call per iteration path
    for comp in sccs:
        comp_set = set(comp)
        for name in comp:
            body = crate.bodies[name]
            rec_blocks = {}
            for cs in body.calls():
                if cs.node["callee"].get("resolved") in comp_set or cs.node["callee"].get("path") in comp_set:
                    rec_blocks[cs.bb] = cs
            for header, blocks in sorted(body.loops().items()):
                inside = [bb for bb in rec_blocks if bb in blocks]
                if len(inside) < 2:
                    continue
                # two recursive call sites in one loop: can one iteration execute both?
                worst = 0
                seen = set()
                stack = [(s, 0) for s in body.succs(header) if s in blocks]
                while stack:
                    bb, n = stack.pop()
                    if (bb, n) in seen or n > 2:
                        continue
                    seen.add((bb, n))
                    n2 = n + (1 if bb in rec_blocks else 0)
                    worst = max(worst, n2)
                    for s in body.succs(bb):
                        if s in blocks and s != header:
                            stack.append((s, n2))
                run.ob("%s.recursion-fanout" % prefix, "%s loop@%s" % (name, _loop_line(body, header, blocks)), worst <= 1,
                       "at most one recursive call per loop iteration" if worst <= 1 else
                       "one loop iteration can make %d recursive calls on the same sub-structure: running time grows exponentially with nesting depth" % worst,
                       site=rec_blocks[inside[0]], key="%s.fanout|%s" % (prefix, name))
    cg = crate.callgraph()
    for comp in sccs:
        cs_ = set(comp)
        for name in comp:
            body = crate.bodies[name]
            direct = set()
            for cs in body.calls():
                for k in ("resolved", "path"):
                    if cs.node["callee"].get(k) in cs_:
                        direct.add(cs.node["callee"][k])
            for callee in sorted((cg.get(name, set()) & cs_) - direct):
                run.ob("%s.recursion" % prefix, "%s -> %s" % (name, callee), False,
                       "recursion through a function value / closure (no direct call site to attach a descent witness to)",
                       site=mir.line_of(body.span), key="%s.recursion|%s|%s|indirect" % (prefix, name, callee))
    run.ob("%s.recursion-sccs" % prefix, "call graph", True, "%d recursive SCC(s): %s" % (len(sccs), "; ".join("+".join(c) for c in sccs)),
           key="%s.recursion-sccs" % prefix, nontrivial=bool(sccs))
    return sccs


def _descent_witness(crate, body, cs, callee, comp):
    t = cs.node
    args = [term_of(body, a) for a in t["args"]]
    # (a) tree descent: some Element-typed argument is a child item of the current element
    for a, op in zip(args, t["args"]):
        ty = arg_ty(body, op)
        if ty.get("adt") == "element::Element" or "element::Element<" in ty.get("s", ""):
            site = _element_child_item(body, a)
            if site is not None:
                return True, "tree descent: argument %s is an item of the iteration over the current element's children (%s); depth = tree depth" % (
                    term_s(strip(a))[:80], site.loc())
    # (b) reader descent
    reader_args = [(a, op) for a, op in zip(args, t["args"]) if "quick_xml::Reader<" in arg_ty(body, op).get("s", "")]
    if reader_args and strip(reader_args[0][0])[0] == "agg" and strip(reader_args[0][0])[2] == "None":
        return True, "passes no reader (None): the callee cannot descend further"
    if not reader_args:
        cb = crate.bodies.get(callee)
        f = crate.fns.get(callee, {})
        if cb is not None and not any("quick_xml::Reader<" in x.get("s", "") for x in f.get("inputs", [])) and any("BytesStart" in x.get("s", "") for x in f.get("inputs", [])):
            return True, "the callee receives no reader: it can only hand None on (its own recursive calls are checked separately)"
    if reader_args:
        loop_calls = [s for s in body.calls() if method(s.node) in READER_METHODS]
        if loop_calls:
            # this body owns the event loop: the recursive call must be dominated by a reader call
            # and must be reachable only through the Start arm (an element was opened)
            rc = loop_calls[0]
            if body.dominates(rc.bb, cs.bb):
                arm = _event_arm_of(body, rc, cs)
                a0 = strip(reader_args[0][0])
                wraps_some = a0[0] == "agg" and a0[2] == "Some"
                if arm == "Start" and wraps_some:
                    return True, "reader descent: recursion passes Some(reader) only in the Start arm, after an event was consumed (%s); depth = element nesting depth" % rc.loc()
                if arm is not None and not wraps_some:
                    return True, "call in the %s arm passes no reader (None): the callee cannot recurse further" % arm
                return False, "recursive call with the reader is not confined to the Start arm (arm=%s)" % arm
            return False, "recursive call with the reader is not preceded by a reader call"
        # this body forwards an Option<&mut Reader> parameter: must be under its Some variant
        a0 = strip(reader_args[0][0])
        root = _root_of(a0)
        ok_src = False
        for st in mir.subterms(a0):
            if st[0] == "proj" and st[1][0] == "arg" and any(e[0] == "dc" and e[1] == "Some" for e in st[2] if e != "*"):
                ok_src = True
        if ok_src:
            return True, "reader descent: forwards the caller's Some(reader) (no reader -> no recursion)"
        if a0[0] == "arg" and "Option<" in body.local_ty(a0[1]).get("s", "") and "quick_xml::Reader<" in body.local_ty(a0[1]).get("s", ""):
            return True, "forwards its own optional reader unchanged: no reader is created here, the callee's own recursive calls carry the descent witness"
        # helper that received the reader itself: every caller inside the cycle must be the Start arm of the event loop
        if any(st[0] == "arg" and "quick_xml::Reader<" in body.local_ty(st[1]).get("s", "") and "Option<" not in body.local_ty(st[1]).get("s", "") for st in mir.subterms(a0)):
            callers = []
            for n2 in comp:
                b2 = crate.bodies[n2]
                for c2 in b2.calls():
                    if c2.node["callee"].get("path") == body.name or c2.node["callee"].get("resolved") == body.name:
                        callers.append((b2, c2))
            good = bool(callers)
            for (b2, c2) in callers:
                rcs = [x for x in b2.calls() if method(x.node) in READER_METHODS]
                if not rcs or not b2.dominates(rcs[0].bb, c2.bb) or _event_arm_of(b2, rcs[0], c2) != "Start":
                    good = False
            if good:
                return True, "reader descent: this helper is only entered from the Start arm of the event loop, after an event was consumed"
        return False, "recursive call with a reader that is not the caller's Some(reader) payload: %s" % term_s(a0)
    # (c) bounded renaming recursion: guard on a Type constant, type forwarded unchanged,
    #     new name makes the guard of this site false in the callee
    if callee == body.name:
        return _rename_witness(crate, body, cs)
    return False, "no structural-descent witness for this recursive call (arguments: %s)" % ", ".join(term_s(strip(a))[:40] for a in args)


def _event_arm_of(body, reader_call, site):
    from .events import reader_result_shape
    sw2 = reader_result_shape(body, reader_call)["event_switch"]
    if sw2 is None:
        return None
    arms = [v for v in sw2["variants"] if mir.variant_target(sw2, body, v) is not None and
            site.bb in body.reach_from(mir.variant_target(sw2, body, v), avoid={reader_call.bb})]
    return arms[0] if len(arms) == 1 else (None if not arms else "+".join(arms))


def _guards(body, site):
    """list of (callee name, [arg terms], outcome bool) for bool-valued calls the site is control dependent on"""
    out = []
    deps = body.transitive_control_deps(site.bb)
    by_branch = {}
    for (a, s) in deps:
        by_branch.setdefault(a, set()).add(s)
    for (a, s) in deps:
        if by_branch[a] >= set(body.succs(a)):
            continue  # reachable through every alternative of this test: not a condition
        t = body.blocks[a]["term"]
        if t["k"] != "switch":
            continue
        c = strip(term_of(body, t["op"]))
        # outcome: which value leads to s
        val = None
        for v, b in t["targets"]:
            if b == s:
                val = int(v)
        if val is None and t["otherwise"] == s:
            val = "otherwise"
        neg = False
        while c[0] == "unop" and c[1] == "Not":
            c = strip(c[2])
            neg = not neg
        if c[0] == "call":
            truth = (val != 0) if val != "otherwise" else True
            if val == "otherwise":
                truth = not any(int(v) == 1 for v, _ in t["targets"])
                truth = True if all(int(v) == 0 for v, _ in t["targets"]) else truth
            out.append((c[1], c[2], truth != neg))
    return out


def _rename_witness(crate, body, cs):
    t = cs.node
    args = [term_of(body, a) for a in t["args"]]
    guards = _guards(body, cs)
    # find the name parameter (a &String / &str param forwarded modified) and the kind parameter (forwarded unchanged)
    unchanged = [i for i, a in enumerate(args) if strip(a)[0] == "arg" and strip(a)[1] == i + 1]
    changed = [i for i, a in enumerate(args) if i not in unchanged]
    if len(changed) != 1:
        return False, "self-recursion changes %d arguments; expected exactly one (the candidate name)" % len(changed)
    ni = changed[0]
    newname = strip(args[ni], mir.VALUE_PRESERVING)
    # guard on an unchanged enum-typed parameter compared with a constant variant
    kind_guard = None
    for (name, gargs, truth) in guards:
        if name == "std::cmp::PartialEq::eq" and truth and len(gargs) == 2:
            a, b = strip(gargs[0]), strip(gargs[1])
            for x, y in ((a, b), (b, a)):
                if x[0] == "arg" and (x[1] - 1) in unchanged and y[0] == "agg":
                    kind_guard = (x[1], y[1], y[2])
    if kind_guard is None:
        return False, "self-recursive call is not guarded by a test of an unchanged parameter against a constant variant"
    # all other self-recursive sites must be guarded by a *different* variant of the same parameter
    for other in body.calls():
        if other == cs:
            continue
        ot = other.node
        if ot["callee"].get("resolved") != body.name and ot["callee"].get("path") != body.name:
            continue
        og = None
        for (name, gargs, truth) in _guards(body, other):
            if name == "std::cmp::PartialEq::eq" and truth and len(gargs) == 2:
                a, b = strip(gargs[0]), strip(gargs[1])
                for x, y in ((a, b), (b, a)):
                    if x[0] == "arg" and x[1] == kind_guard[0] and y[0] == "agg":
                        og = y[2]
        if og is None or og == kind_guard[2]:
            return False, "another self-recursive call (%s) is not guarded by a different variant of the same parameter" % other.loc()
    # the new name must falsify one of this site's guards on the name parameter
    for (name, gargs, truth) in guards:
        gs = [strip(g) for g in gargs]
        if name in ("std::cmp::PartialEq::eq",) and truth and len(gs) == 2:
            for x, y in ((gs[0], gs[1]), (gs[1], gs[0])):
                if x[0] == "arg" and x[1] == ni + 1 and y[0] == "const" and isinstance(y[1], str):
                    if newname[0] == "const" and isinstance(newname[1], str) and newname[1] != y[1]:
                        return True, "bounded recursion: guarded by `%s == %r` and `arg%d == %s`; the callee receives %r, so this guard fails there and the other recursive site needs a different variant (depth <= 2)" % (
                            "name", y[1], kind_guard[0], kind_guard[2], newname[1])
        if name == "core::str::ends_with" and not truth and len(gs) == 2:
            hay, suf = gs
            if suf[0] == "const" and isinstance(suf[1], str) and _root_of(hay) == ("arg", ni + 1):
                f = fmt.format_of(args[ni])
                if f is not None:
                    pieces, fargs = f
                    # literal tail of the formatted string (constant arguments count as literal text)
                    tail = ""
                    for pc in reversed(pieces):
                        if isinstance(pc, str):
                            tail = pc + tail
                        else:
                            at = strip(fargs[pc[1]][1], mir.VALUE_PRESERVING) if pc[1] < len(fargs) else ("x",)
                            if at[0] == "const" and isinstance(at[1], str) and fargs[pc[1]][0] == "display" and not pc[2]:
                                tail = at[1] + tail
                            else:
                                break
                    if tail.endswith(suf[1]):
                        pieces = list(pieces) + [tail]
                    if pieces and isinstance(pieces[-1], str) and pieces[-1].endswith(suf[1]):
                        return True, "bounded recursion: guarded by `!name.ends_with(%r)` and `arg%d == %s`; the callee receives format!(%r), which ends with %r, so this guard fails there (depth <= 2)" % (
                            suf[1], kind_guard[0], kind_guard[2], fmt.template_s(pieces), suf[1])
    return False, "self-recursive call passes a new name (%s) that is not shown to falsify its own guard" % term_s(newname)[:80]
