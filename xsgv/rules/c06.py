"""C06 - extending behaves like inferring from the union (static part)."""
from . import c15, nondet, pm, results

EXPLANATION = (
    "NOT decided: order-independence and idempotence (algebraic laws over all histories). Decided: extension is the batch engine "
    "applied to one more occurrence of the root (PM13: fresh wrapper + previous root as its child + the same event loop + the same "
    "root extraction); no hidden state between calls (PM14: no statics, thread-locals, interior mutability); monotone field "
    "discipline (PM15: standalone only cleared, text only set, names/children never replaced, removed children always re-inserted); "
    "attribute necessity is a conjunction (C15 table: Mandatory only if Mandatory on both sides); the previous structure is taken "
    "by value and every Result is propagated (A3), so a failed extension yields Err and no partial structure is observable.")


def run(ctx):
    r = ctx.run
    r.explanation = EXPLANATION
    pm.run_all(ctx)
    from . import c16
    c16.tree_contracts(r, ctx.lib)
    nondet.scan_shared_state(r, ctx.lib)
    c15.check_merge(r, ctx.lib)
    results.scan_results(r, ctx.lib)
    from . import c08
    c08.forbidden_calls(r, ctx.lib, c08.CONFIG, "R8.4.default-checks", "`%s` relaxes the reader/attribute checks: a malformed later document would be merged instead of rejected")
    r.assume("conformance to today's mechanism (frozen instance table); commutativity/idempotence are not decided")
