"""C12 - the command-line program is the library plus a header, and fails cleanly.

A7: effect order and guards in the binary's `run`/`main`, decided on MIR by
dominance and by symbolic terms of the values handed to the sinks."""
import re

from .. import fmt, mir
from ..mir import strip, term_of, term_s
from . import results
from .common import arg_ty, cname, method, norm, self_ty

HEADER = "use serde::{Deserialize, Serialize};\n\n"

EXPLANATION = (
    "The binary's bodies are analysed in MIR. run = the body calling the library's into_struct. Rules: (R12.1) every "
    "file-system write and every stdout write in run is dominated by the success edges of the `?` on the input read AND on "
    "into_struct; (R12.2) the value written to both sinks is String::add(HEADER.to_owned(), &root.to_serde_struct(&options)) "
    "with HEADER = the property's two header lines and root = the parsed value; (R12.3) Some(path) region = File::create(path) + "
    "write_fmt with template `{}` only, no stdout; None region = print with template `{}\\n`, no file-system call; (R12.4) the "
    "options passed derive from Into<Options>(config.parser), then Options::derive(_, &config.derive), then .sort = "
    "Into<SortBy>(config.sort), in that order and nothing else; (R12.5) conversion tables, clap value names and defaults; "
    "(R12.6) the error closure writes to stderr (or logs at Error level with env_logger), never to stdout, and always reaches "
    "process::exit(1); main has no other exit; (R12.7) all Results in run are propagated. std/clap/log semantics are trusted.")

FS_READ = {"std::fs::read_to_string", "std::fs::read", "std::fs::File::open", "std::fs::metadata", "std::fs::exists"}


def effect_kind(t):
    n = cname(t)
    if n in FS_READ:
        return "fs-read"
    if n.startswith("std::fs::"):
        return "fs-write"
    if n in ("std::io::_print", "std::io::stdout", "std::io::Stdout::lock"):
        return "stdout"
    if n in ("std::io::_eprint", "std::io::stderr"):
        return "stderr"
    if n in ("std::io::Write::write_fmt", "std::io::Write::write_all", "std::io::Write::write", "std::io::Write::flush"):
        return "write"
    if n == "std::process::exit" or n == "std::process::abort":
        return "exit"
    if n.startswith("log::__private_api::log"):
        return "log"
    return None


def branch_of(body, call_site):
    """the `?` applied to the result of call_site: (branch Site, continue block, break block)"""
    d = call_site.node["dest"]["l"]
    for cs in body.calls():
        if cname(cs.node) == "std::ops::Try::branch" and cs.node["args"]:
            p = mir.op_place(cs.node["args"][0])
            if p is not None and not p["p"] and p["l"] == d:
                nxt = body.succs(cs.bb)
                sw = mir.switch_enum(body, nxt[0]) if len(nxt) == 1 else None
                if sw is None:
                    return None
                return cs, mir.variant_target(sw, body, "Continue"), mir.variant_target(sw, body, "Break")
    return None


def display_args(body, args_operand):
    f = fmt.arguments_of(term_of(body, args_operand))
    return f


def _built_by_pushes(body, t):
    """a String created empty and then filled by exactly push_str(HEADER); push_str(&rendering) -> rendering call term"""
    t = strip(t, mir.VALUE_PRESERVING + ("std::string::String::as_bytes", "std::string::String::as_str"))
    local = None
    if t[0] == "call" and t[1] in ("std::string::String::with_capacity", "std::string::String::new") and len(t) > 3:
        local = t[3].node["dest"]["l"]
    elif t[0] == "local":
        ds = [d for d in body.defs().get(t[1], []) if d.si is None and cname(d.node) in ("std::string::String::with_capacity", "std::string::String::new")]
        if len(ds) == 1 and len(body.defs().get(t[1], [])) == 1:
            local = t[1]
    if local is None:
        return None
    muts = []
    for cs in body.calls():
        for a in cs.node["args"][:1]:
            if arg_ty(body, a).get("s", "").startswith("&mut "):
                p = mir.op_place(a)
                if p is not None and body.through_ref(p)["l"] == local and not body.through_ref(p)["p"]:
                    muts.append(cs)
    if len(muts) != 2 or any(cname(m.node) != "std::string::String::push_str" for m in muts):
        return None
    a, b_ = muts
    if not body.dominates(a.bb, b_.bb):
        a, b_ = b_, a
    if not body.dominates(a.bb, b_.bb) or a.bb == b_.bb:
        return None
    first = strip(term_of(body, a.node["args"][1]), mir.VALUE_PRESERVING)
    second = strip(term_of(body, b_.node["args"][1]), mir.VALUE_PRESERVING)
    if first == ("const", HEADER) and second[0] == "call" and second[1].endswith("Element::to_serde_struct"):
        return second
    return None


def is_struct_string(body, t, root_term_check):
    """t == add(to_owned(HEADER), deref(&to_serde_struct(&root, &options)))  (or the same built by two push_str)"""
    built = _built_by_pushes(body, t)
    if built is not None:
        return True, "String built by push_str(HEADER); push_str(&root.to_serde_struct(&options))", built
    t = strip(t)
    if t[0] == "local":
        return False, "value is a variable with several definitions (_%d)" % t[1], None
    # the value as a sequence of text pieces: literals, the rendering, anything else.  `a + &b`, format!("..{}..", a, b)
    # and to_owned/to_string/as_str/deref of a piece are concatenations/identities on text (Display of str is verbatim)
    pieces = _text_pieces(t, 0)
    merged = []
    for p in pieces:
        if p[0] == "lit" and merged and merged[-1][0] == "lit":
            merged[-1] = ("lit", merged[-1][1] + p[1])
        elif not (p[0] == "lit" and p[1] == ""):
            merged.append(p)
    if len(merged) == 2 and merged[0] == ("lit", HEADER) and merged[1][0] == "render":
        return True, "the header literal followed by root.to_serde_struct(&options), nothing else", merged[1][1]
    return False, "value is %s, not HEADER + rendering" % " ++ ".join(repr(p[1])[:40] if p[0] == "lit" else ("<rendering>" if p[0] == "render" else term_s(p[1])[:40]) for p in merged)[:160], None


def _text_pieces(t, depth):
    t = strip(t, mir.VALUE_PRESERVING + ("std::hint::must_use", "std::string::String::as_str", "std::borrow::Cow::into_owned"))
    if depth > 6:
        return [("other", t)]
    if t[0] == "const" and isinstance(t[1], str):
        return [("lit", t[1])]
    if t[0] == "call" and t[1] == "std::ops::Add::add" and len(t[2]) == 2:
        return _text_pieces(t[2][0], depth + 1) + _text_pieces(t[2][1], depth + 1)
    if t[0] == "call" and t[1].endswith("Element::to_serde_struct"):
        return [("render", t)]
    f = fmt.format_of(t)
    if f is not None:
        out = []
        args = list(f[1])
        k = 0
        for p in f[0]:
            if isinstance(p, str):
                out.append(("lit", p))
            else:
                idx = p[1] if isinstance(p, tuple) and len(p) > 1 and isinstance(p[1], int) else k
                opts = p[2] if isinstance(p, tuple) and len(p) > 2 else None
                if idx >= len(args) or args[idx][0] != "display" or opts:
                    return [("other", t)]       # width/precision/debug: not the text itself
                out += _text_pieces(args[idx][1], depth + 1)
                k = idx + 1
        return out
    return [("other", t)]


def run(ctx):
    r = ctx.run
    r.explanation = EXPLANATION
    configs = ["default"] + (["env_logger", "release"] if ctx.thorough else [])
    for tag in configs:
        crates = ctx.config(tag)
        check_bin(r, crates["bin"], tag)
        # R12.9: "exits 0 ... or exits with status 1": the hand-written code of the program has no panic-capable
        # construct (a panic ends the process with status 101 and a message that is not the diagnostic).  Derive
        # output of clap is trusted; process::exit is judged by R12.6.
        from . import panics
        sfx = "" if tag == "default" else "[%s]" % tag
        n = panics.scan_panics(r, crates["bin"], prefix="R12.9" + sfx, only=lambda bd, _c=crates["bin"]: not (_c.bodies.get(bd.name.split("::{closure")[0], bd).span.get("exp") or bd.span.get("exp")),
                                exempt=("std::process::exit",))
        r.count("panic-capable sites in the program's own code" + sfx, n)
    r.trust("std::fs / std::io / std::process, clap's derive output and the log facade behave as documented")
    r.trust("process exit status 0 follows from main returning normally")
    r.assume("stdout/stderr are the process's standard streams; with --features env_logger the diagnostic goes through the logger to stderr")
    if not ctx.thorough:
        r.assume("the env_logger feature configuration is analysed in the thorough tier")


def check_bin(r, b, tag):
    sfx = "" if tag == "default" else "[%s]" % tag
    runs = [x for x in b.real_bodies() if any(cname(c.node).endswith("::into_struct") or cname(c.node).endswith("::extend_struct") for c in x.calls())]
    if len(runs) != 1:
        r.ob("A7.anchor" + sfx, "bin", False, "expected exactly one body calling the library parser, found %d" % len(runs), key="A7.anchor|run" + sfx)
        return
    run_b = runs[0]
    # the driver function is the one main calls; the parser call may sit in a private helper below it
    cg = b.callgraph()
    for _ in range(4):
        if "main" in cg and run_b.name in cg.get("main", ()):
            break
        callers = [n for n, cs_ in cg.items() if run_b.name in cs_ and n != run_b.name and not n.startswith("<")]
        if len(callers) != 1:
            break
        run_b = b.bodies[callers[0]]
    mains = [x for x in b.real_bodies() if x.name == "main"]
    if len(mains) != 1:
        r.ob("A7.anchor" + sfx, "bin", False, "no main body", key="A7.anchor|main" + sfx)
        return
    main_b = mains[0]
    # look through private helper functions of the binary (extracted by refactorings); generated clap impls and
    # the conversion impls of args.rs keep their function boundary (R12.5 reads them)
    def helper(cb, t):
        return not cb.name.startswith("<") and "::<impl " not in cb.name and cb.kind in ("fn", "assoc_fn") and cb.name not in ("main",)
    run_name = run_b.name
    run_b = mir.inline_calls(b, run_b, helper)
    main_b = mir.inline_calls(b, main_b, lambda cb, t: helper(cb, t) and cb.name != run_name)

    # ---- effects in run
    effects = [(effect_kind(cs.node), cs) for cs in run_b.calls() if effect_kind(cs.node)]
    reads = [cs for k, cs in effects if k == "fs-read"]
    parse = [cs for cs in run_b.calls() if cname(cs.node).endswith("::into_struct")]
    ok_anchor = len(reads) == 1 and len(parse) == 1
    r.ob("A7.anchor" + sfx, run_b.name, ok_anchor, "one input read (%d) and one into_struct call (%d)" % (len(reads), len(parse)),
         site=mir.line_of(run_b.span), key="A7.anchor|run-shape" + sfx)
    if not ok_anchor:
        return
    br_read = branch_of(run_b, reads[0])
    br_parse = branch_of(run_b, parse[0])
    if br_read is None or br_parse is None:
        r.ob("R12.7.propagated" + sfx, run_b.name, False, "the input read or the parse result is not `?`-propagated", site=parse[0], key="R12.7|q" + sfx)
        return
    # the parser reads what was read from the input file
    rd = strip(term_of(run_b, parse[0].node["args"][0]))
    src_ok = any(st[0] == "call" and st[3] == reads[0] for st in mir.subterms(rd) if st[0] == "call" and len(st) > 3)
    r.ob("R12.2.input-is-parsed" + sfx, run_b.name, src_ok, "into_struct reads a quick_xml Reader over the string returned by read_to_string(config.input_path)"
         if src_ok else "the reader handed to into_struct is not built from the file contents: %s" % term_s(rd)[:100], site=parse[0], key="R12.2|input" + sfx)
    # R12.8 strict decoding: non-UTF-8 input must be refused
    from . import c08
    c08.forbidden_calls(r, b, c08.LOSSY, "R12.8.strict-input-decoding" + sfx, "`%s` decodes leniently: a non-UTF-8 input file would be accepted instead of refused")
    rn = cname(reads[0].node)
    strict = rn == "std::fs::read_to_string" or any(st[0] == "call" and st[1] in ("std::string::String::from_utf8", "core::str::from_utf8", "std::str::from_utf8")
                                                      for st in mir.subterms(rd))
    r.ob("R12.8.strict-input-decoding" + sfx, run_b.name, strict, "the input is decoded by %s (strict UTF-8, error propagated)" % rn.split("::")[-1] if strict else
         "the input is read with `%s` and reaches the parser without a strict UTF-8 check" % rn, site=reads[0], key="R12.8|decode" + sfx)
    pth = strip(term_of(run_b, reads[0].node["args"][0]))
    r.ob("R12.2.input-path" + sfx, run_b.name, _is_field(pth, "input_path"), "input is read from config.input_path" if _is_field(pth, "input_path")
         else "input path is %s" % term_s(pth), site=reads[0], key="R12.2|input-path" + sfx)

    # R12.1 no output effect on any path that continues from a failed read or a failed parse (path walk with
    # Result variants tracked, so `?` nested in an inlined helper and re-propagated by the caller is followed)
    out_blocks = {}
    for k, cs in effects:
        if k in ("fs-write", "stdout", "write"):
            out_blocks.setdefault(cs.bb, cs)
        if k == "exit":
            r.ob("R12.6.exit" + sfx, "%s: process::exit" % run_b.name, False, "run terminates the process itself", site=cs, key="R12.6|exit-in-run" + sfx)
    for what, br in (("input read", br_read), ("parse", br_parse)):
        hit = []
        if br[2] is not None:
            def visit(bb, st, _hit=hit):
                if bb in out_blocks:
                    _hit.append(out_blocks[bb])
                    return ("effect", bb)
                return None
            mir.walk_paths(run_b, br[2], visit)
        before = []

        def visit0(bb, st, _b=before, _stop=br[0].bb):
            if bb == _stop:
                return ("reached", bb)
            if bb in out_blocks:
                _b.append(out_blocks[bb])
                return ("effect", bb)
            return None
        mir.walk_paths(run_b, 0, visit0)
        ok1 = not hit and not before
        r.ob("R12.1.output-after-success" + sfx, "%s: after a failed %s" % (run_b.name, what), ok1,
             "no file-system or stdout effect is reachable from the error outcome of the %s, and none precedes it" % what if ok1 else
             "`%s` can execute although the %s failed / before it" % (cname((hit or before)[0].node), what),
             site=(hit or before or [br[0]])[0], key="R12.1|%s%s" % (what, sfx))
    # ---- output region
    sw_site = None
    for bb in sorted(run_b.reachable()):
        sw = mir.switch_enum(run_b, bb)
        if sw is not None and sw["enum"] == "std::option::Option":
            pt = strip(term_of(run_b, sw["place"]))
            if _is_field(pt, "output_path"):
                sw_site = sw
                break
    if sw_site is None:
        r.ob("R12.3.output-choice" + sfx, run_b.name, False, "no match on config.output_path found", site=mir.line_of(run_b.span), key="R12.3|switch" + sfx)
        return
    some_b = mir.variant_target(sw_site, run_b, "Some")
    none_b = mir.variant_target(sw_site, run_b, "None")
    rs = run_b.reach_from(some_b) if some_b is not None else set()
    rn = run_b.reach_from(none_b) if none_b is not None else set()
    some_only, none_only = rs - rn, rn - rs
    # every output effect lies in exactly one of the regions
    for k, cs in effects:
        if k in ("fs-write", "stdout", "write") and cs.bb not in some_only and cs.bb not in none_only:
            r.ob("R12.3.output-choice" + sfx, "%s: %s" % (run_b.name, cname(cs.node)), False,
                 "output effect `%s` is outside the Some(path)/None alternatives" % cname(cs.node), site=cs, key="R12.3|outside|%s%s" % (cname(cs.node), sfx))

    def eff(region, kinds):
        return [cs for k, cs in effects if cs.bb in region and k in kinds]

    # Some(path): File::create(path) + write!(file, "{}", value), or the equivalent std::fs::write(path, value)
    creates = [cs for cs in eff(some_only, ("fs-write",))]
    struct_terms = []
    via_fs_write = len(creates) == 1 and cname(creates[0].node) == "std::fs::write"
    ok = len(creates) == 1 and cname(creates[0].node) in ("std::fs::File::create", "std::fs::write")
    why = "exactly one File::create (or fs::write) in the Some(path) alternative" if ok else "file-system writes in the Some(path) alternative: %s" % [cname(c.node) for c in creates]
    if ok:
        pa = strip(term_of(run_b, creates[0].node["args"][0]))
        if not any(_mentions_field(st, "output_path") for st in mir.subterms(pa)):
            ok, why = False, "the output file is opened at %s, not the named output path" % term_s(pa)[:80]
    r.ob("R12.3.file-branch" + sfx, run_b.name, ok, why, site=creates[0] if creates else None, key="R12.3|create" + sfx)
    r.ob("R12.3.file-branch-no-stdout" + sfx, run_b.name, not eff(some_only, ("stdout",)),
         "nothing is printed to stdout when an output file is named" if not eff(some_only, ("stdout",)) else "stdout is written although an output file is named",
         site=(eff(some_only, ("stdout",)) or [None])[0], key="R12.3|some-stdout" + sfx)
    writes = eff(some_only, ("write",))
    if via_fs_write:
        okw = not writes
        whyw = "std::fs::write(path, value) writes exactly the value" if okw else "additional writes next to fs::write"
        if okw:
            struct_terms.append(("file", creates[0], strip(term_of(run_b, creates[0].node["args"][1]), mir.VALUE_PRESERVING + ("std::string::String::into_bytes", "std::string::String::as_bytes"))))
        r.ob("R12.3.file-content-template" + sfx, run_b.name, okw, whyw, site=creates[0], key="R12.3|write" + sfx)
    else:
        okw = len(writes) == 1 and cname(writes[0].node) == "std::io::Write::write_fmt"
        whyw = "one write_fmt on the created file"
        if len(writes) == 1 and cname(writes[0].node) == "std::io::Write::write_all":
            w = writes[0]
            recv = strip(term_of(run_b, w.node["args"][0]))
            made = creates and any(st[0] == "call" and len(st) > 3 and st[3] == creates[0] for st in mir.subterms(recv))
            val = strip(term_of(run_b, w.node["args"][1]))
            if val[0] == "call" and val[1] in ("std::string::String::as_bytes", "core::str::as_bytes"):
                val = strip(val[2][0])
            bytes_ok = arg_ty(run_b, w.node["args"][1]).get("s", "") in ("&[u8]",)
            if made and bytes_ok:
                struct_terms.append(("file", w, val))
                r.ob("R12.3.file-content-template" + sfx, run_b.name, True, "write_all(value.as_bytes()) on the file returned by File::create", site=w, key="R12.3|write" + sfx)
            else:
                r.ob("R12.3.file-content-template" + sfx, run_b.name, False, "write_all of something other than the value's bytes, or not on the created file", site=w, key="R12.3|write" + sfx)
            okw = None
        if okw is None:
            pass
        elif okw:
            w = writes[0]
            f = display_args(run_b, w.node["args"][1])
            recv = strip(term_of(run_b, w.node["args"][0]))
            made = creates and any(st[0] == "call" and len(st) > 3 and st[3] == creates[0] for st in mir.subterms(recv))
            if f is None:
                okw, whyw = False, "write_fmt arguments not recognised"
            elif [p if isinstance(p, str) else "{}" for p in f[0]] != ["{}"] or len(f[1]) != 1 or f[1][0][0] != "display":
                okw, whyw = False, "file content template is %r, expected exactly `{}`" % fmt.template_s(f[0])
            elif not made:
                okw, whyw = False, "write_fmt does not write to the file returned by File::create"
            else:
                struct_terms.append(("file", w, f[1][0][1]))
                whyw = "write!(file, \"{}\", value) on the file returned by File::create"
        else:
            whyw = "writes in the Some(path) alternative: %s" % [cname(c.node) for c in writes]
        if okw is not None:
            r.ob("R12.3.file-content-template" + sfx, run_b.name, okw, whyw, site=writes[0] if writes else None, key="R12.3|write" + sfx)
    # None
    prints = eff(none_only, ("stdout",))
    okp = len(prints) == 1 and cname(prints[0].node) == "std::io::_print"
    whyp = ""
    if okp:
        f = display_args(run_b, prints[0].node["args"][0])
        if f is None:
            okp, whyp = False, "print arguments not recognised"
        elif [p if isinstance(p, str) else "{}" for p in f[0]] != ["{}", "\n"] or len(f[1]) != 1 or f[1][0][0] != "display":
            okp, whyp = False, "stdout template is %r, expected `{}` followed by exactly one newline" % fmt.template_s(f[0])
        else:
            struct_terms.append(("stdout", prints[0], f[1][0][1]))
            whyp = "println!(\"{}\", value)"
    else:
        whyp = "stdout writes in the None alternative: %s" % [cname(c.node) for c in prints]
    r.ob("R12.3.stdout-template" + sfx, run_b.name, okp, whyp, site=prints[0] if prints else None, key="R12.3|print" + sfx)
    nf = eff(none_only, ("fs-write", "write"))
    r.ob("R12.3.stdout-branch-no-file" + sfx, run_b.name, not nf, "no file-system effect when no output file is named" if not nf
         else "file-system effect without an output path: %s" % [cname(c.node) for c in nf], site=(nf or [None])[0], key="R12.3|none-fs" + sfx)

    # R12.2 the value
    render_calls = []
    for what, site, t in struct_terms:
        ok2, why2, render = is_struct_string(run_b, t, None)
        r.ob("R12.2.header-plus-rendering" + sfx, "%s -> %s" % (run_b.name, what), ok2, why2, site=site, key="R12.2|value|%s%s" % (what, sfx))
        if render is not None:
            render_calls.append(render)
    for render in render_calls[:1]:
        rsite = render[3]
        root = strip(render[2][0])
        root_ok = any(st[0] == "call" and len(st) > 3 and st[1] == "std::ops::Try::branch" and st[3] == br_parse[0] for st in mir.subterms(root)) or \
            _derives_from_branch(run_b, rsite.node["args"][0], br_parse[0]) or \
            ("call", parse[0]) in run_b.origins(rsite.node["args"][0], transparent=lambda n: n is not parse[0].node and (cname(n) in mir.VALUE_PRESERVING or cname(n) == "std::ops::Try::branch"))
        r.ob("R12.2.renders-parsed-root" + sfx, run_b.name, root_ok, "to_serde_struct is called on the value into_struct returned"
             if root_ok else "to_serde_struct receiver is %s" % term_s(root)[:80], site=rsite, key="R12.2|root" + sfx)
        # R12.4 options
        check_options(r, run_b, rsite, sfx)

    # R12.10: "the library plus a header": the reader handed to the library is default-configured
    from . import c08
    c08.forbidden_calls(r, b, c08.CONFIG, "R12.10.default-reader" + sfx, "`%s` configures the reader: the program would accept or reject other inputs than the library does")
    # R12.7
    own = {n for n in b.reachable_from([run_b.name]) | {run_b.name} if n in b.bodies and
           not (b.bodies.get(n.split("::{closure")[0], b.bodies[n]).span.get("exp") or b.bodies[n].span.get("exp"))}
    results.scan_results(r, b, prefix="R12.7" + sfx, only=own)      # the driver and every helper of the program it reaches

    # R12.5 conversion tables
    check_tables(r, b, sfx)

    # R12.6 main and its error closure
    check_main(r, b, main_b, run_b, tag, sfx)


def _is_field(t, name):
    t = strip(t, mir.VALUE_PRESERVING)
    return t[0] == "proj" and t[1][0] == "arg" and any(e != "*" and e[0] == "f" and e[3] == name for e in t[2]) and \
        not any(e != "*" and e[0] == "f" and e[3] != name for e in t[2])


def _mentions_field(t, name):
    return t[0] == "proj" and t[1][0] == "arg" and any(e != "*" and e[0] == "f" and e[3] == name for e in t[2])


def _derives_from_branch(body, operand, branch_site):
    org = body.origins(operand, transparent=lambda t: cname(t) in mir.VALUE_PRESERVING)
    return ("call", branch_site) in org


def check_options(r, run_b, render_site, sfx):
    op = render_site.node["args"][1]
    p = mir.op_place(op)
    root = run_b.through_ref(p) if p is not None else None
    if root is None:
        r.ob("R12.4.options" + sfx, run_b.name, False, "options argument is not a variable", site=render_site, key="R12.4|var" + sfx)
        return
    l = root["l"]
    for _ in range(6):
        ds = run_b.defs().get(l, [])
        if len(ds) == 1 and ds[0].si is not None and ds[0].node["k"] == "assign" and not ds[0].node["place"]["p"] and ds[0].node["rv"]["k"] == "use":
            src = mir.op_place(ds[0].node["rv"]["op"])
            if src is not None and not src["p"] and not (1 <= src["l"] <= run_b.arg_count):
                l = src["l"]
                continue
        break
    defs = run_b.defs().get(l, [])
    # struct-update form: Options { sort: From(config.sort), ..From(config.parser).derive(&config.derive) }
    if len(defs) == 1 and defs[0].si is not None and defs[0].node["k"] == "assign" and defs[0].node["rv"]["k"] == "agg" and defs[0].node["rv"].get("adt", "").endswith("Options"):
        rv = defs[0].node["rv"]
        vals = {f: strip(term_of(run_b, o)) for f, o in zip(rv["fields"], rv["ops"])}
        srt = vals.get("sort", ("x",))
        sort_ok = srt[0] == "call" and srt[1] in ("std::convert::Into::into", "std::convert::From::from") and _is_field(srt[2][0], "sort")
        bases = []
        rest_ok = True
        # the derive list may be stored directly (`derive: config.derive.clone()`): Options::derive is a plain setter of that
        # field (R10.5.builder), so this is the same value
        derive_direct = _is_field(strip(vals.get("derive", ("x",)), mir.VALUE_PRESERVING), "derive")
        for f, v in vals.items():
            if f == "sort" or (f == "derive" and derive_direct):
                continue
            if v[0] == "proj" and [e[3] for e in v[2] if e != "*" and e[0] == "f"] == [f]:
                bases.append(strip(v[1]))
            else:
                rest_ok = False
        base_ok = False
        if rest_ok and bases and all(mir.same_place_term(bases[0], x) for x in bases[1:]):
            bt = bases[0]
            if bt[0] == "local":
                dd = run_b.defs().get(bt[1], [])
                if len(dd) == 1 and dd[0].si is None:
                    bt = ("call", cname(dd[0].node), [term_of(run_b, a) for a in dd[0].node["args"]], dd[0])
            if derive_direct:
                base_ok = bt[0] == "call" and bt[1] in ("std::convert::Into::into", "std::convert::From::from") and len(bt[2]) == 1 and _is_field(bt[2][0], "parser")
            elif bt[0] == "call" and bt[1].endswith("Options::derive") and len(bt[2]) == 2:
                pre = strip(bt[2][0])
                dv = strip(bt[2][1], mir.VALUE_PRESERVING)
                base_ok = pre[0] == "call" and pre[1] in ("std::convert::Into::into", "std::convert::From::from") and _is_field(pre[2][0], "parser") and _is_field(dv, "derive")
        ok = sort_ok and rest_ok and base_ok
        r.ob("R12.4.options" + sfx, run_b.name, ok, "options = Options { sort: From(config.sort), ..From(config.parser).derive(&config.derive) }" if ok else
             "struct-update construction of the options: sort ok=%s, other fields taken from one base=%s, base is preset.derive(&config.derive)=%s" % (sort_ok, rest_ok, base_ok),
             site=render_site, key="R12.4|stages" + sfx)
        return
    stages = {}
    other = []

    def is_preset(t):
        t = strip(t)
        return t[0] == "call" and t[1] in ("std::convert::Into::into", "std::convert::From::from") and len(t[2]) == 1 and _is_field(t[2][0], "parser")

    def derive_stage(d, t):
        """t = Options::derive(receiver, list): receiver is the options variable itself (preset assigned before) or the preset
        conversion written in place (`Options::from(parser).derive(list)`)"""
        stages["derive"] = d
        a = t[2]
        dv = strip(a[1], mir.VALUE_PRESERVING) if len(a) > 1 else ("none",)
        stages["derive_arg_ok"] = _is_field(dv, "derive")
        recv = strip(a[0])
        if recv[0] == "local" and recv[1] == l:
            stages["derive_self_ok"] = True
        elif is_preset(recv):
            stages["derive_self_ok"] = True
            stages["preset"] = d
        else:
            stages["derive_self_ok"] = False
    for d in defs:
        n = d.node
        if d.si is None:  # call dest
            nm = cname(n)
            t = ("call", nm, [term_of(run_b, a) for a in n["args"]], d)
            if is_preset(t):
                stages["preset"] = d
            elif nm.endswith("Options::derive"):
                derive_stage(d, t)
            else:
                other.append(d)
        elif n["k"] == "assign":
            pl = n["place"]
            if pl["p"]:
                fields = mir.place_fields(pl)
                t = strip(term_of(run_b, n["rv"]["op"])) if n["rv"]["k"] == "use" else ("x",)
                if fields and fields[-1][1] == "sort" and t[0] == "call" and t[1] in ("std::convert::Into::into", "std::convert::From::from") and \
                        _is_field(t[2][0], "sort"):
                    stages["sort"] = d
                else:
                    other.append(d)
            else:
                t = strip(term_of(run_b, n["rv"]["op"])) if n["rv"]["k"] == "use" else ("x",)
                if t[0] == "call" and t[1].endswith("Options::derive"):
                    derive_stage(d, t)
                elif is_preset(t):
                    stages["preset"] = d
                else:
                    other.append(d)
    ok = all(k in stages for k in ("preset", "derive", "sort")) and not other and stages.get("derive_arg_ok") and stages.get("derive_self_ok")
    if ok:
        order = run_b.dominates(stages["preset"].bb, stages["derive"].bb) and run_b.dominates(stages["derive"].bb, stages["sort"].bb) and \
            run_b.dominates(stages["sort"].bb, render_site.bb)
        ok = order
        why = "options = Into<Options>(config.parser) -> .derive(&config.derive) -> .sort = Into<SortBy>(config.sort), each dominating the next and the rendering" if order \
            else "the option stages are not ordered preset -> derive -> sort -> rendering"
    else:
        why = "options variable is defined by: preset=%s derive=%s(arg ok=%s, applied to options=%s) sort=%s other=%s" % (
            "preset" in stages, "derive" in stages, stages.get("derive_arg_ok"), stages.get("derive_self_ok"), "sort" in stages, [o.loc() for o in other])
    r.ob("R12.4.options" + sfx, run_b.name, ok, why, site=render_site, key="R12.4|stages" + sfx)


def check_tables(r, b, sfx):
    want_from = {
        "xml_schema_generator::Options": {"QuickXmlDe": "quick_xml_de", "SerdeXmlRs": "serde_xml_rs"},
        "xml_schema_generator::SortBy": {"Unsorted": "Unsorted", "Name": "XmlName"},
    }
    found_tables = set()
    for body in b.real_bodies():
        m = re.match(r"^args::<impl std::convert::From<(?:&(?:'\w+ )?)?args::(\w+)> for (xml_schema_generator::\w+)>::from$", body.name)
        if m and m.group(2) in want_from:
            found_tables.add(m.group(2))
            sw = mir.switch_enum(body, 0)
            table = want_from[m.group(2)]
            got = {}
            if sw:
                for v in sw["variants"]:
                    t = mir.variant_target(sw, body, v)
                    outs = set()
                    for bb in body.reach_from(t) if t is not None else ():
                        blk = body.blocks[bb]
                        for st in blk["stmts"]:
                            if st["k"] == "assign" and st["place"]["l"] == 0 and st["rv"]["k"] == "agg":
                                outs.add(st["rv"]["variant"])
                        if blk["term"]["k"] == "call" and blk["term"]["dest"]["l"] == 0:
                            outs.add(method(blk["term"]))
                    got[v] = sorted(outs)
            ok = got == {k: [v] for k, v in table.items()}
            r.ob("R12.5.conversion-table" + sfx, body.name, ok, "maps %s" % got if ok else "maps %s, expected %s" % (got, table),
                 site=mir.line_of(body.span), key="R12.5|from|%s%s" % (m.group(2), sfx))
    for ty in sorted(want_from):
        r.ob("R12.5.conversion-table-found" + sfx, ty, ty in found_tables, "the conversion from the command-line value to %s is a `From` impl in args" % ty if ty in found_tables else
             "no `From<command-line value> for %s` found: the mapping of the option values is not checked" % ty, key="R12.5|from-found|%s%s" % (ty, sfx))
    names = {"ParserArg": {"QuickXmlDe": "quick-xml-de", "SerdeXmlRs": "serde-xml-rs"}, "SortByArg": {"Unsorted": "unsorted", "Name": "name"}}
    defaults = {"ParserArg": "QuickXmlDe", "SortByArg": "Unsorted"}
    for ty, table in names.items():
        body = b.bodies.get("<args::%s as clap::ValueEnum>::to_possible_value" % ty)
        if body is None:
            r.ob("R12.5.value-names" + sfx, ty, False, "clap ValueEnum impl not found", key="R12.5|names|%s%s" % (ty, sfx))
            continue
        sw = mir.switch_enum(body, 0)
        got = {}
        for v in (sw["variants"] if sw else []):
            t = mir.variant_target(sw, body, v)
            for bb in body.reach_from(t) if t is not None else ():
                tt = body.blocks[bb]["term"]
                if tt["k"] == "call" and cname(tt).endswith("PossibleValue::new"):
                    c = strip(term_of(body, tt["args"][0]))
                    got[v] = c[1] if c[0] == "const" else None
        ok = got == table
        r.ob("R12.5.value-names" + sfx, ty, ok, "command-line value names %s" % got if ok else "value names %s, expected %s" % (got, table),
             site=mir.line_of(body.span), key="R12.5|names|%s%s" % (ty, sfx))
        dbody = b.bodies.get("<args::%s as std::default::Default>::default" % ty)
        dv = None
        if dbody is not None:
            for s in dbody.assigns():
                if s.node["place"]["l"] == 0 and s.node["rv"]["k"] == "agg":
                    dv = s.node["rv"]["variant"]
        r.ob("R12.5.defaults" + sfx, ty, dv == defaults[ty], "default is %s" % dv, site=mir.line_of(dbody.span) if dbody else None,
             key="R12.5|default|%s%s" % (ty, sfx))
    aug = b.bodies.get("<args::Args as clap::Args>::augment_args")
    consts = set()
    if aug is not None:
        for s in aug.sites():
            for o in mir.site_operands(s):
                c = o.get("const")
                if c and "str" in c:
                    consts.add(c["str"])
    okd = "Serialize, Deserialize" in consts
    r.ob("R12.5.defaults" + sfx, "--derive", okd, "default derive value is `Serialize, Deserialize`" if okd else "default derive literal not found in the clap argument definitions",
         site=mir.line_of(aug.span) if aug else None, key="R12.5|default|derive" + sfx)


def check_main(r, b, main_b, run_b, tag, sfx):
    calls_run = [cs for cs in main_b.calls() if cs.node["callee"].get("path") == run_b.name or cs.node["callee"].get("resolved") == run_b.name]
    ok = len(calls_run) == 1
    r.ob("R12.6.main-calls-run" + sfx, "main", ok, "main calls run once" if ok else "main calls run %d times" % len(calls_run),
         site=calls_run[0] if calls_run else None, key="R12.6|main-run" + sfx)
    if not ok:
        return
    # config comes from clap's parse
    cfg = strip(term_of(main_b, calls_run[0].node["args"][0]))
    okc = cfg[0] == "call" and cfg[1] in ("clap::Parser::parse",)
    r.ob("R12.6.args-from-clap" + sfx, "main", okc, "run receives Args::parse()" if okc else "run receives %s" % term_s(cfg)[:60],
         site=calls_run[0], key="R12.6|parse" + sfx)
    # result handed to unwrap_or_else(closure), or matched in main (`if let Err(err) = run(..) {..}`)
    handler = None
    h_blocks = None
    err_is = None
    for cs in main_b.calls():
        if cname(cs.node) == "std::result::Result::unwrap_or_else":
            a0 = strip(term_of(main_b, cs.node["args"][0]))
            if a0[0] == "call" and len(a0) > 3 and a0[3] == calls_run[0]:
                clo = arg_ty(main_b, cs.node["args"][1]).get("closure")
                handler = b.bodies.get(clo)
                if handler is not None:
                    h_blocks = set(handler.reachable())
                    err_is = lambda t: strip(t) == ("arg", 2)
    if handler is None:
        for bb in sorted(main_b.reachable()):
            sw = mir.switch_enum(main_b, bb)
            if sw is None or sw["enum"] != "std::result::Result":
                continue
            pt = strip(term_of(main_b, sw["place"]))
            if pt[0] == "call" and len(pt) > 3 and pt[3] == calls_run[0]:
                et = mir.variant_target(sw, main_b, "Err")
                if et is not None:
                    handler = main_b
                    h_blocks = main_b.reach_from(et) - (main_b.reach_from(mir.variant_target(sw, main_b, "Ok")) if mir.variant_target(sw, main_b, "Ok") is not None else set())

                    def err_is(t, _run=calls_run[0]):
                        t = strip(t)
                        if t[0] == "proj" and t[1][0] == "call" and len(t[1]) > 3 and t[1][3] == _run and any(e != "*" and e[0] == "dc" and e[1] == "Err" for e in t[2]):
                            return True
                        if t[0] == "local":
                            return any(d.si is not None and d.node["k"] == "assign" and d.node["rv"]["k"] == "use" and err_is(term_of(main_b, d.node["rv"]["op"]))
                                       for d in main_b.defs().get(t[1], []))
                        return False
    for cs in main_b.calls():
        k = effect_kind(cs.node)
        if k in ("exit", "stdout", "fs-write", "write") and not (handler is main_b and cs.bb in h_blocks):
            r.ob("R12.6.main-effects" + sfx, "main: %s" % cname(cs.node), False, "main itself performs `%s` outside the error handler" % cname(cs.node), site=cs,
                 key="R12.6|main-effect|%s%s" % (cname(cs.node), sfx))
    if handler is None:
        r.ob("R12.6.error-handler" + sfx, "main", False, "run's result is neither handled by unwrap_or_else(<closure>) nor matched in main", site=calls_run[0], key="R12.6|handler" + sfx)
        return
    h = handler
    effs = [(effect_kind(cs.node), cs) for cs in h.calls() if effect_kind(cs.node) and cs.bb in h_blocks]
    exits = [cs for k, cs in effs if k == "exit"]
    okx = len(exits) >= 1 and all(cname(e.node) == "std::process::exit" and strip(term_of(h, e.node["args"][0])) == ("const", 1) for e in exits)
    r.ob("R12.6.exit-status-1" + sfx, h.name, okx, "process::exit(1)" if okx else "exit calls: %s" % [(cname(e.node), term_s(strip(term_of(h, e.node["args"][0])))) for e in exits],
         site=exits[0] if exits else mir.line_of(h.span), key="R12.6|exit1" + sfx)
    # every path through the handler reaches exit: no return block inside the handler region
    rets = [x for x in h.return_blocks() if x in h_blocks]
    r.ob("R12.6.handler-always-exits" + sfx, h.name, not rets, "the handler cannot return (every path ends in process::exit)" if not rets
         else "the handler can return without exiting", site=mir.line_of(h.span), key="R12.6|diverges" + sfx)
    bad = [cs for k, cs in effs if k in ("stdout", "fs-write", "write")]
    r.ob("R12.6.handler-no-stdout" + sfx, h.name, not bad, "the handler writes nothing to stdout or to files" if not bad else
         "the handler performs %s" % [cname(c.node) for c in bad], site=(bad or [None])[0], key="R12.6|no-stdout" + sfx)
    diag = []
    for k, cs in effs:
        if k == "stderr":
            f = display_args(h, cs.node["args"][0])
            if f and any(err_is(a[1]) for a in f[1]):
                diag.append(("stderr", cs))
        if k == "log":
            f = fmt.arguments_of(term_of(h, cs.node["args"][1])) if len(cs.node["args"]) > 1 else None
            lvl = strip(term_of(h, cs.node["args"][2])) if len(cs.node["args"]) > 2 else None
            if f and any(err_is(a[1]) for a in f[1]) and lvl and lvl[0] == "agg" and lvl[2] == "Error":
                diag.append(("log", cs))
    uncond = [d for d in diag if exits and all(h.dominates(d[1].bb, e.bb) for e in exits)]
    if tag == "env_logger":
        okd = any(d[0] == "log" for d in diag)
        whyd = "the error is logged at Error level (env_logger writes it to stderr)" if okd else "no log::error!(err) in the handler"
    else:
        okd = any(d[0] == "stderr" for d in uncond)
        whyd = "eprintln!(\"{err}\") dominates the exit" if okd else "no unconditional stderr diagnostic showing the error before exit"
    r.ob("R12.6.diagnostic" + sfx, h.name, okd, whyd, site=(diag[0][1] if diag else mir.line_of(h.span)), key="R12.6|diag" + sfx)
