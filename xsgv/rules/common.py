"""helpers shared by the rule packs"""
import re

from .. import mir, pp
from ..report import CheckerFailure


def norm(path):
    """strip generic argument lists: std::vec::Vec::<T, A>::push -> std::vec::Vec::push"""
    if not path:
        return ""
    out = []
    depth = 0
    for ch in path:
        if ch == "<":
            depth += 1
        elif ch == ">":
            depth -= 1
        elif depth == 0:
            out.append(ch)
    s = "".join(out)
    while "::::" in s:
        s = s.replace("::::", "::")
    return s.strip(":")


def cname(t):
    """normalised declared callee path of a call terminator ('' for indirect calls)"""
    return norm(t["callee"].get("path", ""))


def rname(t):
    """normalised resolved callee path"""
    return norm(t["callee"].get("resolved", "")) or cname(t)


def method(t):
    n = cname(t)
    return n.rsplit("::", 1)[-1] if n else ""


def self_ty(t):
    """type JSON of the receiver / Self of the callee"""
    c = t["callee"]
    if "trait" in c and c.get("targs"):
        return c["targs"][0]
    if "impl_self" in c:
        return c["impl_self"]
    if c.get("targs"):
        return c["targs"][0]
    return {}


def self_adt(t):
    return self_ty(t).get("adt")


def arg_ty(body, o):
    p = mir.op_place(o)
    if p is not None:
        return p.get("ty") or {}
    c = o.get("const")
    if c:
        return c["ty"]
    return {}


def local_body_of_call(crate, t):
    c = t["callee"]
    for k in ("resolved", "path"):
        if c.get(k) in crate.bodies:
            return crate.bodies[c[k]]
    return None


HASH_ADTS = ("std::collections::HashMap", "std::collections::HashSet", "hashbrown::HashMap", "hashbrown::HashSet",
             "hashbrown::map::HashMap", "hashbrown::set::HashSet")
SORTED_ADTS = ("std::collections::BTreeMap", "std::collections::BTreeSet")
HASH_ITER_RE = re.compile(
    r"(hash_map|hash::map|hashbrown::map)::(Iter|IterMut|IntoIter|Keys|Values|ValuesMut|IntoKeys|IntoValues|Drain|ExtractIf)\b"
    r"|(hash_set|hash::set|hashbrown::set)::(Iter|IntoIter|Drain|Difference|Intersection|SymmetricDifference|Union|ExtractIf)\b")


def is_hash_container(ty):
    return ty.get("adt") in HASH_ADTS


def mentions_hash_iter(ty):
    return bool(HASH_ITER_RE.search(ty.get("s", "")))


def is_mut_ref(ty):
    return ty.get("s", "").startswith("&mut ")


def one(items, what):
    items = list(items)
    if len(items) != 1:
        raise CheckerFailure("expected exactly one %s, found %d" % (what, len(items)))
    return items[0]


def fn_short(body):
    return body.name


def body_loc(body):
    return mir.line_of(body.span)


def find_loop_of(body, bb):
    """innermost natural loop (header, blocks) containing block bb, or None"""
    best = None
    for h, blocks in body.loops().items():
        if bb in blocks:
            if best is None or len(blocks) < len(best[1]):
                best = (h, blocks)
    return best


def loop_exits(body, blocks):
    out = []
    for a in blocks:
        for b in body.succs(a):
            if b not in blocks:
                out.append((a, b))
    return out


def lib_roots(crate):
    """public API entry points of the library crate"""
    return sorted(p for p, f in crate.fns.items() if f["pub"] and f["has_body"])


def look_through_private(crate, body, also=None):
    """body with calls to private, non-recursive crate helpers inlined (refactoring tolerance)"""
    def pred(cb, t):
        f = crate.fns.get(cb.name)
        if f is None or f.get("pub"):
            return False
        return also is None or also(cb, t)
    return mir.inline_calls(crate, body, pred)


def normal_form(crate, body, also=None):
    """body with private helpers inlined and iterator pipelines / visible closure calls made explicit (refactoring
    tolerance: the rule packs are written against loops, guards and direct calls)"""
    from .. import desugar
    b = body
    for _ in range(3):
        b1 = look_through_private(crate, b, also)
        b2 = desugar.desugar(crate, b1)
        if b2 is b:
            break
        b = b2
    return b


def conjunction_paths(body, atom_of, limit=400):
    """enumerate the paths of a small bool function: [(conds {atom: truth}, result)], result = True | False |
    ("atom", key, truth) ; raises CheckerFailure when a branch or result is not an atom"""
    from ..mir import strip, term_of

    def as_atom(t):
        neg = False
        t = strip(t)
        while t[0] == "unop" and t[1] == "Not":
            t, neg = strip(t[2]), not neg
        if t[0] == "const" and isinstance(t[1], bool):
            return ("const", t[1] != neg)
        if t[0] == "binop" and t[1] in ("Eq", "Ne", "Lt", "Le", "Gt", "Ge"):
            t = ("call", "binop::" + t[1], [t[2], t[3]], None)
        if t[0] != "call":
            return None
        a = atom_of(t)
        if a is None:
            return None
        key, pos = a
        return ("atom", key, pos != neg)

    out = []
    stack = [(0, {}, None, 0)]
    steps = 0
    while stack:
        bb, conds, res, depth = stack.pop()
        steps += 1
        if steps > limit or depth > 60:
            raise CheckerFailure("predicate too large to enumerate")
        blk = body.blocks[bb]
        for st in blk["stmts"]:
            if st["k"] == "assign" and st["place"]["l"] == 0 and not st["place"]["p"]:
                if st["rv"]["k"] != "use":
                    raise CheckerFailure("result computed by %s" % st["rv"]["k"])
                a = as_atom(term_of(body, st["rv"]["op"]))
                if a is None:
                    raise CheckerFailure("result is not a recognised test")
                res = a[1] if a[0] == "const" else a
        t = blk["term"]
        k = t["k"]
        if k == "return":
            out.append((conds, res))
            continue
        if k == "call":
            if t["dest"]["l"] == 0 and not t["dest"]["p"]:
                a = as_atom(("call", cname(t), [term_of(body, x) for x in t["args"]], None))
                if a is None:
                    raise CheckerFailure("result is `%s`, not a recognised test" % cname(t))
                res = a
            if t.get("t") is not None:
                stack.append((t["t"], conds, res, depth + 1))
            continue
        if k == "switch":
            sw = mir.switch_enum(body, bb)
            if sw is not None and sw["enum"] == "std::option::Option":
                # `match opt { Some(..) => .., None => .. }` is the test opt.is_some()
                a = as_atom(("call", "std::option::Option::is_some", [term_of(body, sw["place"])], None))
                if a is None or a[0] != "atom":
                    raise CheckerFailure("match on an Option that is not a recognised test")
                for v, truth in (("Some", True), ("None", False)):
                    tgt = mir.variant_target(sw, body, v)
                    if tgt is not None and not body.is_unreachable_block(tgt):
                        c2 = dict(conds)
                        c2[a[1]] = truth == a[2]
                        stack.append((tgt, c2, res, depth + 1))
                continue
            a = as_atom(term_of(body, t["op"]))
            if a is None or a[0] != "atom":
                raise CheckerFailure("branch on something that is not a recognised test")
            for v, tgt in t["targets"] + [["otherwise", t["otherwise"]]]:
                if body.is_unreachable_block(tgt):
                    continue
                truth = (v == "otherwise") if all(int(x) == 0 for x, _ in t["targets"]) else (v != "otherwise" and int(v) != 0)
                c2 = dict(conds)
                c2[a[1]] = truth == a[2]
                stack.append((tgt, c2, res, depth + 1))
            continue
        for sx in body.succs(bb):
            stack.append((sx, conds, res, depth + 1))
    return out


def is_conjunction_of(body, atom_of, atoms):
    """(ok, why): body returns true exactly when every atom in `atoms` holds"""
    try:
        paths = conjunction_paths(body, atom_of)
    except CheckerFailure as e:
        return False, str(e)
    atoms = set(atoms)
    if not paths:
        return False, "no path to a return"
    for conds, res in paths:
        if set(conds) - atoms:
            return False, "also depends on %s" % sorted(map(str, set(conds) - atoms))
        if res is True:
            if not (set(conds) == atoms and all(conds.values())):
                return False, "returns true with %s" % conds
        elif res is False:
            if all(conds.get(a, True) for a in atoms) and not any(v is False for v in conds.values()):
                return False, "returns false although no test failed (%s)" % conds
        elif isinstance(res, tuple) and res[0] == "atom":
            k, pos = res[1], res[2]
            if k not in atoms or not pos or k in conds or not all(conds.get(a) is True for a in atoms - {k}):
                return False, "returns %s%s after %s" % ("" if pos else "!", k, conds)
        else:
            return False, "result not recognised"
    return True, "true exactly when %s" % " && ".join(sorted(map(str, atoms)))


class PseudoSite:
    """an assignment that is part of another statement (a field of a struct-update expression)"""
    def __init__(self, site, node):
        self.body, self.bb, self.si, self.node, self._site = site.body, site.bb, site.si, node, site

    def loc(self):
        return self._site.loc()

    def span(self):
        return self._site.span()


def element_update(body, site):
    """`Element { f: v, ..src }` builds every field; the fields copied from the same field of an existing Element are
    unchanged.  -> {changed field: operand} for such an update, None for a plain constructor (no field copied)"""
    rv = site.node["rv"]
    if rv.get("k") != "agg" or rv.get("adt") != "element::Element":
        return None
    changed, kept = {}, 0
    bases = set()
    for f, o in zip(rv["fields"], rv["ops"]):
        p = mir.op_place(o)
        if p is not None:
            cp = body.canon(p)
            last = cp["p"][-1] if cp["p"] else None
            if isinstance(last, dict) and last.get("adt") == "element::Element" and last.get("f") == f:
                kept += 1
                if len(cp["p"]) == 1:
                    bases.add(cp["l"])
                continue
        changed[f] = o
    if not kept:
        return None
    # `Element { f: v, ..Element { .. } }` with the base built by a plain constructor in this very body is itself a
    # constructor: the kept fields resolve to the base's constructor values
    if len(bases) == 1:
        l = next(iter(bases))
        for _ in range(6):
            ds = body.defs().get(l, [])
            whole = [d for d in ds if d.si is not None and d.node["k"] == "assign" and not d.node["place"]["p"]]
            if len(ds) != 1 or len(whole) != 1:
                break
            rv0 = whole[0].node["rv"]
            if rv0.get("k") == "agg" and rv0.get("adt") == "element::Element":
                if element_update(body, whole[0]) is None:
                    return None
                break
            p0 = mir.op_place(rv0["op"]) if rv0.get("k") == "use" else None
            if p0 is None or p0["p"]:
                break
            l = p0["l"]
    return changed


def update_base(t):
    """term-level view of `Element { f: v, ..x }`: (term of x, set of changed field names) or None"""
    from ..mir import strip
    t = strip(t)
    if t[0] != "agg" or t[1] != "element::Element":
        return None
    base, changed = None, set()
    for f, v in t[3].items():
        sv = strip(v)
        fs = [e for e in sv[2] if e != "*"] if sv[0] == "proj" else []
        if fs and fs[-1][0] == "f" and fs[-1][1] == "element::Element" and fs[-1][3] == f and len(fs) == 1:
            if base is None:
                base = strip(sv[1])
            elif strip(sv[1]) != base:
                return None
        else:
            changed.add(f)
    return (base, changed) if base is not None else None
