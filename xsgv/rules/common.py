"""helpers shared by the rule packs"""
import re

from .. import mir, pp
from ..report import CheckerFailure


def norm(path):
    """strip generic argument lists: std::vec::Vec::<T, A>::push -> std::vec::Vec::push"""
    if not path:
        return ""
    out = []
    depth = 0
    for ch in path:
        if ch == "<":
            depth += 1
        elif ch == ">":
            depth -= 1
        elif depth == 0:
            out.append(ch)
    s = "".join(out)
    while "::::" in s:
        s = s.replace("::::", "::")
    return s.strip(":")


def cname(t):
    """normalised declared callee path of a call terminator ('' for indirect calls)"""
    return norm(t["callee"].get("path", ""))


def rname(t):
    """normalised resolved callee path"""
    return norm(t["callee"].get("resolved", "")) or cname(t)


def method(t):
    n = cname(t)
    return n.rsplit("::", 1)[-1] if n else ""


def self_ty(t):
    """type JSON of the receiver / Self of the callee"""
    c = t["callee"]
    if "trait" in c and c.get("targs"):
        return c["targs"][0]
    if "impl_self" in c:
        return c["impl_self"]
    if c.get("targs"):
        return c["targs"][0]
    return {}


def self_adt(t):
    return self_ty(t).get("adt")


def arg_ty(body, o):
    p = mir.op_place(o)
    if p is not None:
        return p.get("ty") or {}
    c = o.get("const")
    if c:
        return c["ty"]
    return {}


def local_body_of_call(crate, t):
    c = t["callee"]
    for k in ("resolved", "path"):
        if c.get(k) in crate.bodies:
            return crate.bodies[c[k]]
    return None


HASH_ADTS = ("std::collections::HashMap", "std::collections::HashSet", "hashbrown::HashMap", "hashbrown::HashSet",
             "hashbrown::map::HashMap", "hashbrown::set::HashSet")
SORTED_ADTS = ("std::collections::BTreeMap", "std::collections::BTreeSet")
HASH_ITER_RE = re.compile(
    r"(hash_map|hash::map|hashbrown::map)::(Iter|IterMut|IntoIter|Keys|Values|ValuesMut|IntoKeys|IntoValues|Drain|ExtractIf)\b"
    r"|(hash_set|hash::set|hashbrown::set)::(Iter|IntoIter|Drain|Difference|Intersection|SymmetricDifference|Union|ExtractIf)\b")


def is_hash_container(ty):
    return ty.get("adt") in HASH_ADTS


def mentions_hash_iter(ty):
    return bool(HASH_ITER_RE.search(ty.get("s", "")))


def is_mut_ref(ty):
    return ty.get("s", "").startswith("&mut ")


def one(items, what):
    items = list(items)
    if len(items) != 1:
        raise CheckerFailure("expected exactly one %s, found %d" % (what, len(items)))
    return items[0]


def fn_short(body):
    return body.name


def body_loc(body):
    return mir.line_of(body.span)


def find_loop_of(body, bb):
    """innermost natural loop (header, blocks) containing block bb, or None"""
    best = None
    for h, blocks in body.loops().items():
        if bb in blocks:
            if best is None or len(blocks) < len(best[1]):
                best = (h, blocks)
    return best


def loop_exits(body, blocks):
    out = []
    for a in blocks:
        for b in body.succs(a):
            if b not in blocks:
                out.append((a, b))
    return out


def lib_roots(crate):
    """public API entry points of the library crate"""
    return sorted(p for p, f in crate.fns.items() if f["pub"] and f["has_body"])


def look_through_private(crate, body, also=None):
    """body with calls to private, non-recursive crate helpers inlined (refactoring tolerance)"""
    def pred(cb, t):
        f = crate.fns.get(cb.name)
        if f is None or f.get("pub"):
            return False
        return also is None or also(cb, t)
    return mir.inline_calls(crate, body, pred)
