"""A4: the event loop, its match on quick_xml::events::Event, and per-variant effect summaries.
Roles are found by what the code does (which body calls the reader), not by private names."""
from .. import mir
from ..report import CheckerFailure
from .common import cname, method

READER_METHODS = {"read_event_into", "read_event", "read_resolved_event_into", "read_resolved_event"}
# classes of quick-xml 0.37 event kinds, by the dependency's own variant names
CLASS = {
    "Start": "open", "Empty": "open-empty", "End": "finish", "Eof": "finish",
    "Text": "chardata", "CData": "chardata",
    "Comment": "ignored", "Decl": "ignored", "PI": "ignored", "DocType": "ignored",
}


def reader_result_shape(b, read):
    """how the Result<Event, Error> of a reader call is consumed.  Returns dict with
       form: "match" (matched directly) | "question" (`?`, possibly after map_err) | None
       err_block: first block of the error continuation (Err arm / Break arm)
       event_switch: switch_enum dict on the Ok payload (the Event)
       map_err: the map_err call Site if any"""
    out = {"form": None, "err_block": None, "event_switch": None, "map_err": None, "sw_result": None, "branch": None}
    nxt = b.succs(read.bb)
    if len(nxt) != 1:
        return out
    sw = mir.switch_enum(b, nxt[0])
    if sw is not None and sw["enum"] == "std::result::Result" and b.canon(sw["place"])["l"] == read.node["dest"]["l"]:
        out["form"] = "match"
        out["sw_result"] = sw
        out["err_block"] = mir.variant_target(sw, b, "Err")
        okb = mir.variant_target(sw, b, "Ok")
        if okb is not None:
            out["event_switch"] = mir.switch_enum(b, okb)
        return out
    # `?` form: follow the value through map_err into Try::branch
    cur = read.node["dest"]["l"]
    site = None
    for _ in range(3):
        users = [c for c in b.calls() if any(mir.op_place(a) is not None and mir.op_place(a)["l"] == cur and not mir.op_place(a)["p"] for a in c.node["args"][:1])]
        if len(users) != 1:
            return out
        u = users[0]
        if cname(u.node) == "std::result::Result::map_err":
            out["map_err"] = u
            cur = u.node["dest"]["l"]
            continue
        if cname(u.node) == "std::ops::Try::branch":
            site = u
        break
    if site is None:
        return out
    n2 = b.succs(site.bb)
    swc = mir.switch_enum(b, n2[0]) if len(n2) == 1 else None
    if swc is None or swc["enum"] != "std::ops::ControlFlow":
        return out
    out["form"] = "question"
    out["branch"] = site
    out["err_block"] = mir.variant_target(swc, b, "Break")
    cont = mir.variant_target(swc, b, "Continue")
    # the Event switch: first enum switch on an Event reached from the Continue arm
    seen = set()
    work = [cont] if cont is not None else []
    while work:
        x = work.pop()
        if x in seen:
            continue
        seen.add(x)
        sw2 = mir.switch_enum(b, x)
        if sw2 is not None and sw2["enum"].endswith("events::Event"):
            out["event_switch"] = sw2
            break
        if sw2 is not None:
            continue
        work.extend(b.succs(x))
    return out


class EventLoop:
    def __init__(self, crate):
        cands = []
        for b in crate.real_bodies():
            for cs in b.calls():
                if method(cs.node) in READER_METHODS and cname(cs.node).startswith("quick_xml::"):
                    cands.append((b, cs))
        self.cands = cands
        self.ok = len(cands) == 1
        if not self.ok:
            return
        self.body, self.read = cands[0]
        b = self.body
        self.shape = reader_result_shape(b, self.read)
        self.sw_result = self.shape["sw_result"]
        self.sw_event = self.shape["event_switch"]
        self.err_block = self.shape["err_block"]
        if self.sw_event is None or not self.sw_event["enum"].endswith("events::Event") or self.err_block is None:
            self.ok = False
            return
        self.variants = self.sw_event["variants"]
        self.header = self.read.bb
        # regions
        self.region = {}
        for v in self.variants:
            t = mir.variant_target(self.sw_event, b, v)
            self.region[v] = b.reach_from(t, avoid={self.header}) if t is not None else set()
        cont = [v for v in self.variants if self._continues(v)]
        self.continuing = cont
        tail = None
        for v in cont:
            tail = set(self.region[v]) if tail is None else tail & self.region[v]
        self.tail = tail or set()

    def _continues(self, v):
        b = self.body
        for bb in self.region[v]:
            if self.header in b.succs(bb):
                return True
        return False

    def target(self, v):
        return mir.variant_target(self.sw_event, self.body, v)

    def exclusive(self, v):
        return self.region[v] - self.tail

    def calls(self, v):
        b = self.body
        return [mir.Site(b, bb, None) for bb in sorted(self.exclusive(v)) if b.blocks[bb]["term"]["k"] == "call"]

    def writes(self, v):
        """assignments in the arm to named locals, parameters, fields or the return place"""
        b = self.body
        out = []
        for bb in sorted(self.exclusive(v)):
            for si, st in enumerate(b.blocks[bb]["stmts"]):
                if st["k"] != "assign":
                    continue
                pl = b.canon(st["place"])
                l = pl["l"]
                if b.is_drop_flag(l):
                    continue
                named = b.local_name(l) is not None or l <= b.arg_count
                if named or pl["p"]:
                    out.append(mir.Site(b, bb, si))
        return out

    def can_return(self, v):
        b = self.body
        return any(b.blocks[bb]["term"]["k"] == "return" or not b.succs(bb) for bb in self.region[v])

    def payload_local(self, v):
        """the user variable bound to the event payload in arm v (e.g. `e`)"""
        b = self.body
        t = self.target(v)
        if t is None:
            return None
        for st in b.blocks[t]["stmts"]:
            if st["k"] == "assign" and st["rv"]["k"] == "use":
                p = mir.op_place(st["rv"]["op"])
                if p is not None and any(isinstance(e, dict) and e.get("dc") == v for e in p["p"]):
                    return st["place"]["l"]
        return None


def require_loop(crate):
    ev = EventLoop(crate)
    return ev
