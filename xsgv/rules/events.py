"""A4: the event loop, its match on quick_xml::events::Event, and per-variant effect summaries.
Roles are found by what the code does (which body calls the reader), not by private names."""
from .. import mir
from ..report import CheckerFailure
from .common import cname, method

READER_METHODS = {"read_event_into", "read_event", "read_resolved_event_into", "read_resolved_event"}
# classes of quick-xml 0.37 event kinds, by the dependency's own variant names
CLASS = {
    "Start": "open", "Empty": "open-empty", "End": "finish", "Eof": "finish",
    "Text": "chardata", "CData": "chardata",
    "Comment": "ignored", "Decl": "ignored", "PI": "ignored", "DocType": "ignored",
}


class EventLoop:
    def __init__(self, crate):
        cands = []
        for b in crate.real_bodies():
            for cs in b.calls():
                if method(cs.node) in READER_METHODS and cname(cs.node).startswith("quick_xml::"):
                    cands.append((b, cs))
        self.cands = cands
        self.ok = len(cands) == 1
        if not self.ok:
            return
        self.body, self.read = cands[0]
        b = self.body
        nxt = b.succs(self.read.bb)
        self.sw_result = mir.switch_enum(b, nxt[0]) if len(nxt) == 1 else None
        self.sw_event = None
        if self.sw_result is not None and self.sw_result["enum"] == "std::result::Result":
            okb = mir.variant_target(self.sw_result, b, "Ok")
            if okb is not None:
                self.sw_event = mir.switch_enum(b, okb)
        if self.sw_event is None or not self.sw_event["enum"].endswith("events::Event"):
            self.ok = False
            return
        self.variants = self.sw_event["variants"]
        self.header = self.read.bb
        # regions
        self.region = {}
        for v in self.variants:
            t = mir.variant_target(self.sw_event, b, v)
            self.region[v] = b.reach_from(t, avoid={self.header}) if t is not None else set()
        cont = [v for v in self.variants if self._continues(v)]
        self.continuing = cont
        tail = None
        for v in cont:
            tail = set(self.region[v]) if tail is None else tail & self.region[v]
        self.tail = tail or set()

    def _continues(self, v):
        b = self.body
        for bb in self.region[v]:
            if self.header in b.succs(bb):
                return True
        return False

    def target(self, v):
        return mir.variant_target(self.sw_event, self.body, v)

    def exclusive(self, v):
        return self.region[v] - self.tail

    def calls(self, v):
        b = self.body
        return [mir.Site(b, bb, None) for bb in sorted(self.exclusive(v)) if b.blocks[bb]["term"]["k"] == "call"]

    def writes(self, v):
        """assignments in the arm to named locals, parameters, fields or the return place"""
        b = self.body
        out = []
        for bb in sorted(self.exclusive(v)):
            for si, st in enumerate(b.blocks[bb]["stmts"]):
                if st["k"] != "assign":
                    continue
                pl = b.canon(st["place"])
                l = pl["l"]
                if b.is_drop_flag(l):
                    continue
                named = b.local_name(l) is not None or l <= b.arg_count
                if named or pl["p"]:
                    out.append(mir.Site(b, bb, si))
        return out

    def can_return(self, v):
        b = self.body
        return any(b.blocks[bb]["term"]["k"] == "return" or not b.succs(bb) for bb in self.region[v])

    def payload_local(self, v):
        """the user variable bound to the event payload in arm v (e.g. `e`)"""
        b = self.body
        t = self.target(v)
        if t is None:
            return None
        for st in b.blocks[t]["stmts"]:
            if st["k"] == "assign" and st["rv"]["k"] == "use":
                p = mir.op_place(st["rv"]["op"])
                if p is not None and any(isinstance(e, dict) and e.get("dc") == v for e in p["p"]):
                    return st["place"]["l"]
        return None


def require_loop(crate):
    ev = EventLoop(crate)
    return ev
