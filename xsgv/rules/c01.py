"""C01 - generated structs admit every document they were inferred from (static part: unsound-direction mechanism obligations)."""
from . import c15, pm

EXPLANATION = (
    "NOT decided: that the rendered structs describe every source document (quantifies over all trees). Decided: the PM rules "
    "whose violation makes the schema too strict or drops structure: every event kind reaches its class and character data sets "
    "the text flag on Text AND CData (PM1); elements are parsed into the current element and the result kept (PM2); a repeated "
    "name is recorded and marks the child multiple (PM5a, PM6a); a re-seen parent demotes children it did not contain and new "
    "children of later occurrences (PM8a, PM9a, PM10a-c, PM11); every attribute key is collected, merged with conjunction of "
    "necessity (PM12, C15 table) and every child re-inserted (PM15); extension = the same engine on one more occurrence (PM13); "
    "every tree node reaches exactly one field with Option/Vec/String chosen by the node's flags (PM16).")


def run(ctx):
    r = ctx.run
    r.explanation = EXPLANATION
    pm.run_all(ctx)
    from . import c16
    c16.tree_contracts(r, ctx.lib)
    c15.check_merge(r, ctx.lib)
    # "a field bound to its XML name": the binding rules of the renderer (shared with C10/C02/C13)
    from . import c10, renderer
    Rn = renderer.Renderer(ctx.lib)
    if Rn.ok:
        c10.use_rules(r, Rn)
        c10.rename_rules(r, Rn)
    r.assume("conformance to today's mechanism (frozen instance table PM1-PM16); the behavioural claim itself is not decided statically")
