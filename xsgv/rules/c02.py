"""C02 - quick-xml preset: binding-key agreement only (thin static clause)."""
from . import c10, deps, renderer

EXPLANATION = (
    "Only the binding-key agreement clause is decided, a necessary condition of 'the deserialized value holds every text content "
    "and attribute value': the quick-xml preset's text_identifier is one of the special keys the locked quick-xml deserializer "
    "recognises and its attribute_prefix is the marker that deserializer prepends to attribute names (A8, constants read from MIR, "
    "key table read from the registry sources of the version in Cargo.lock); and the renderer binds text and attributes through "
    "exactly these option fields (R10.2). NOT decided and not claimed: that the rendered source compiles, that from_str succeeds, "
    "deny_unknown_fields, Option/Vec acceptance - these need rustc and the deserializer to run.")


def run(ctx):
    r = ctx.run
    r.explanation = EXPLANATION
    lib = ctx.lib
    deps.check_preset(r, lib, "quick_xml_de", "quick-xml", True)
    R = renderer.Renderer(lib)
    r.ob("A6.renderer-model", "library", R.ok, "renderer recognised" if R.ok else "renderer shape not recognised: %s" % R.problems, key="A6.model")
    if R.ok:
        c10.use_rules(r, R)
        c10.rename_rules(r, R)
    # the generated text must be well-formed, with guarded field names and struct types that are defined once: the C04
    # pack is a necessary condition of `compiles unchanged` (its known findings K2/K3 are listed for this property too)
    from . import c04
    c04.core(r, lib)
    # from_str can only succeed on the source documents if the inferred schema admits them: the soundness-direction
    # mechanism rules of C01 are necessary conditions of this property as well (evaluated with C01's tags)
    from . import c15, c16, pm
    saved = r.prop
    try:
        r.prop = "C01"
        pm.run_all(ctx)
        c16.tree_contracts(r, lib)
        c15.check_merge(r, lib)
    finally:
        r.prop = saved
