"""C07 - no panic, abort or hang on arbitrary input bytes (static part).

A2: every panic-capable construct in every body of the library is enumerated
from MIR (Assert terminators, denylisted / #[track_caller] std callees,
diverging calls, indirect calls) and must match a discharge pattern that is
itself checked on the facts; every natural loop needs a progress witness on
every cycle and an exit on exhaustion / Eof / Err; every recursive call needs
a structural-descent witness."""
from . import panics

EXPLANATION = (
    "All bodies of the library (incl. closures and derived impls) are scanned in MIR. Panic-capable constructs = Assert "
    "terminators (overflow, bounds, div-by-zero, ...), calls to a denylist of panicking std APIs or to any #[track_caller] "
    "foreign callee, diverging and indirect calls. Each must match a checked discharge pattern D1-D6 (see DESIGN.md A2). "
    "Each natural loop must have a progress witness (finite-iterator next / pop / reader event / strictly increasing counter) "
    "on every cycle, with the exhausted/Eof/Err outcome leaving the loop. Each recursive call must carry a structural-descent "
    "witness (child of the current element, or Some(reader) in the Start arm after consuming an event, or the bounded renaming "
    "recursion). What is NOT decided: panics inside quick-xml/convert_string/std, allocation failure, exact stack need.")


def run(ctx):
    r = ctx.run
    r.explanation = EXPLANATION
    lib = ctx.lib
    n = panics.scan_panics(r, lib)
    nl = panics.scan_loops(r, lib)
    sccs = panics.scan_recursion(r, lib)
    r.count("panic-capable sites", n)
    r.count("natural loops", nl)
    r.count("recursive SCCs", len(sccs))
    r.assume("quick-xml 0.37.5, convert_string 0.2.0, log and std do not panic on any byte string / any &str (trusted base; convert_string is scanned in the thorough tier)")
    r.assume("allocation failure and stack exhaustion beyond nesting depth 200 are out of scope (the property bounds nesting at 200)")
    r.trust("rustc nightly MIR (mir-opt-level=0, debug assertions + overflow checks on) of the current tree")
    if ctx.thorough:
        for tag in ("release", "env_logger"):
            c = ctx.config(tag)["lib"]
            panics.scan_panics(r, c, prefix="A2[%s]" % tag)
            panics.scan_loops(r, c, prefix="A2[%s]" % tag)
        cs = ctx.config("deps")["convert_string"]
        panics.scan_panics(r, cs, prefix="A2[convert_string]")
        panics.scan_loops(r, cs, prefix="A2[convert_string]")
        panics.scan_recursion(r, cs, prefix="A2[convert_string]")
