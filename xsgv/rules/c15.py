"""C15 - public list merge: union, conjunction of necessity, stable order.

A9: shape rules on the public merge function, found by signature
(Vec<Necessity<T>>, Vec<Necessity<T>>) -> Vec<Necessity<T>>.  The function is
two nested scan loops; each outer iteration is enumerated path by path with
the boolean flags and enum discriminants tracked, and the set of
(conditions, pushed tag) outcomes is compared with the specification table."""
from .. import mir
from ..mir import strip, term_of, term_s
from .common import arg_ty, cname, find_loop_of, loop_exits, method, norm, self_ty

EXPLANATION = (
    "merge function located by signature. (M1) the returned vector is created empty and only ever pushed to. (M2) loop 1 "
    "iterates parameter 1 by into_iter()/next() with no adapter; every path through one iteration pushes exactly once and the "
    "payload is the loop item. (M3) enumerating all paths of an iteration with flags/discriminants tracked: Mandatory is pushed "
    "iff an equal payload was found in parameter 2 and both tags are Mandatory, otherwise Optional. (M4) loop 2 iterates "
    "parameter 2 the same way (an adapter such as rev() is reported), pushes Optional exactly when the scan of the accumulated "
    "result found no equal payload, and nothing otherwise. (M5) neither outer loop can be left except by exhaustion; the inner "
    "scans run over the whole other list / accumulated result. For this nested-loop shape these facts imply union, exactly-once "
    "(for duplicate-free inputs), conjunction of necessity and stable order. A rewrite into iterator combinators is reported as "
    "'shape not recognised'.")

ITER_SOURCES = {"std::iter::IntoIterator::into_iter", "core::slice::iter", "std::vec::Vec::drain", "std::vec::Vec::iter"}
# a membership scan of a duplicate-free list finds the same (only) match from either end
SCAN_SOURCES = ITER_SOURCES | {"std::iter::Iterator::rev"} | set(mir.TRANSPARENT_CALLS)


def find_merge(lib):
    out = []
    for path, f in lib.fns.items():
        if not f["pub"] or len(f["inputs"]) != 2:
            continue
        ins = [i.get("s", "") for i in f["inputs"]]
        o = f["output"].get("s", "")
        if all(s.startswith("std::vec::Vec<necessity::Necessity<") for s in ins + [o]) and path in lib.bodies:
            out.append(lib.bodies[path])
    return out


def iter_chain(body, next_site):
    """term of the iterator driving `next_site` -> (list of adapter/source callee names outermost first, root term)"""
    recv = term_of(body, next_site.node["args"][0])
    t = strip(recv)
    if t[0] == "local":
        # named iterator variable with a single whole definition (moved from the into_iter temp)
        ds = [d for d in body.defs().get(t[1], []) if d.si is not None and d.node["k"] == "assign" and not d.node["place"]["p"]]
        if len(ds) == 1 and ds[0].node["rv"]["k"] == "use":
            t = strip(term_of(body, ds[0].node["rv"]["op"]))
    chain = []
    while t[0] == "call" and t[2]:
        chain.append(t[1])
        t = strip(t[2][0])
    return chain, t


def run(ctx):
    r = ctx.run
    r.explanation = EXPLANATION
    check_merge(r, ctx.lib)
    r.trust("Vec::push appends at the end; vec::IntoIter / slice::Iter yield front to back")
    r.assume("the element type's PartialEq is an equivalence (the property quantifies over duplicate-free lists of plain items)")


def check_merge(r, lib, only_order=False):
    ms = find_merge(lib)
    r.ob("A9.anchor", "library", len(ms) == 1, "exactly one public fn (Vec<Necessity<T>>, Vec<Necessity<T>>) -> Vec<Necessity<T>>: %s" % [m.name for m in ms],
         key="A9.anchor")
    if len(ms) != 1:
        return
    from .common import look_through_private
    from .common import normal_form
    b = normal_form(lib, ms[0])
    fn = b.name
    # result local
    res = None
    for s in b.assigns():
        if s.node["place"]["l"] == 0 and not s.node["place"]["p"] and s.node["rv"]["k"] == "use":
            p = mir.op_place(s.node["rv"]["op"])
            if p is not None and not p["p"]:
                res = p["l"]
    if res is None:
        r.ob("M1.append-only", fn, False, "shape not recognised: the return value is not a local vector", site=mir.line_of(b.span), key="M1|shape")
        return
    # M0: the accumulated vector is the only value ever returned (no side exit / fast path with its own result)
    rets = [s for s in b.sites() if (s.si is not None and s.node["k"] == "assign" and s.node["place"]["l"] == 0 and not s.node["place"]["p"]) or
            (s.si is None and s.node["k"] == "call" and s.node["dest"]["l"] == 0)]
    extra = []
    for s in rets:
        if s.si is not None and s.node["rv"]["k"] == "use":
            p = mir.op_place(s.node["rv"]["op"])
            if p is not None and not p["p"] and p["l"] == res:
                continue
        extra.append(s)
    r.ob("M0.single-result-path", fn, not extra and len(rets) == 1, "the function returns only the vector built by the two passes" if not extra and len(rets) == 1 else
         "the function has %d result path(s) besides the two-pass accumulation (e.g. %s): they bypass the checked passes" % (len(extra) or len(rets) - 1, (extra or rets)[0].loc()),
         site=(extra or rets)[0] if rets else None, key="M0|single-result")
    # M1
    creators = [d for d in b.defs().get(res, [])]
    ok_new = len(creators) == 1 and creators[0].si is None and cname(creators[0].node) in ("std::vec::Vec::new", "std::vec::Vec::with_capacity")
    r.ob("M1.created-empty", fn, ok_new, "result vector has the single definition Vec::new()" if ok_new else
         "result vector is defined by %s" % [str(c) for c in creators], site=creators[0] if creators else None, key="M1|new")
    muts = []
    pushes = []
    for cs in b.calls():
        for a in cs.node["args"]:
            if arg_ty(b, a).get("s", "").startswith("&mut "):
                p = mir.op_place(a)
                if p is not None and b.through_ref(p)["l"] == res and not b.through_ref(p)["p"]:
                    (pushes if cname(cs.node) == "std::vec::Vec::push" else muts).append(cs)
    r.ob("M1.append-only", fn, not muts, "the result is only ever modified by Vec::push (%d sites)" % len(pushes) if not muts else
         "the result is also modified by %s" % [cname(m.node) for m in muts], site=(muts or pushes or [None])[0], key="M1|push-only")

    # outer loops = loops driven by next() on an iterator rooted at a parameter
    loops = []
    for cs in b.calls():
        if cname(cs.node) != "std::iter::Iterator::next":
            continue
        chain, root = iter_chain(b, cs)
        lp = find_loop_of(b, cs.bb)
        if lp is None:
            continue
        loops.append({"next": cs, "chain": chain, "root": root, "header": lp[0], "blocks": lp[1]})
    outer = [l for l in loops if l["root"][0] == "arg" and not any(l is not o and l["blocks"] < o["blocks"] for o in loops)]
    outer.sort(key=lambda l: l["next"].bb)
    by_arg = {l["root"][1]: l for l in outer}
    if set(by_arg) != {1, 2} or len(outer) != 2:
        r.ob("M2.shape", fn, False, "shape not recognised: expected two top-level loops, one over each parameter; found %s" % [
            (term_s(l["root"]), [c.split("::")[-1] for c in l["chain"]]) for l in outer], site=mir.line_of(b.span), key="M2|shape")
        return
    l1, l2 = by_arg[1], by_arg[2]
    r.ob("M2.order-of-passes", fn, b.dominates(l1["header"], l2["header"]) and l2["header"] not in l1["blocks"],
         "the pass over parameter 1 completes before the pass over parameter 2", site=l2["next"], key="M2|pass-order")
    for idx, l in ((1, l1), (2, l2)):
        bad = [c for c in l["chain"] if c not in ITER_SOURCES]
        r.ob("M%d.forward-traversal" % (2 if idx == 1 else 4), "%s: pass over parameter %d" % (fn, idx), not bad,
             "parameter %d is traversed front to back: %s" % (idx, " <- ".join(c.split("::")[-1] for c in l["chain"])) if not bad else
             "the iterator over parameter %d goes through `%s`: order/coverage of the traversal is changed" % (idx, ", ".join(bad)),
             site=l["next"], key="M%d|forward|%s" % (2 if idx == 1 else 4, ",".join(bad) or "ok"))
        exits = loop_exits(b, l["blocks"])
        test_bb = b.succs(l["next"].bb)[0]
        early = [(a, c) for (a, c) in exits if a != test_bb]
        r.ob("M5.exhaustive-pass", "%s: pass over parameter %d" % (fn, idx), not early,
             "the pass can only end by exhausting parameter %d" % idx if not early else "the pass over parameter %d can be left early at %s" % (
                 idx, [mir.Site(b, a, None).loc() for a, _ in early]), site=l["next"], key="M5|outer%d" % idx)

    # inner scans
    def inner_of(l):
        return [x for x in loops if x["blocks"] < l["blocks"]]
    in1, in2 = inner_of(l1), inner_of(l2)
    ok_in1 = len(in1) == 1 and in1[0]["root"] == ("arg", 2) and all(c in SCAN_SOURCES for c in in1[0]["chain"])
    r.ob("M3.scan-of-other", fn, ok_in1, "each item of parameter 1 is looked up by a front-to-back scan of parameter 2" if ok_in1 else
         "shape not recognised: inner scans of pass 1: %s" % [(term_s(x["root"]), x["chain"]) for x in in1], site=in1[0]["next"] if in1 else l1["next"], key="M3|scan")
    def is_res(t):
        return t == ("local", res) or (t[0] == "call" and len(t) > 3 and creators and t[3] == creators[0])
    ok_in2 = len(in2) == 1 and is_res(in2[0]["root"]) and all(c in SCAN_SOURCES for c in in2[0]["chain"])
    r.ob("M4.scan-of-result", fn, ok_in2, "each item of parameter 2 is looked up by a front-to-back scan of the accumulated result" if ok_in2 else
         "shape not recognised: inner scans of pass 2: %s" % [(term_s(x["root"]), x["chain"]) for x in in2], site=in2[0]["next"] if in2 else l2["next"], key="M4|scan")
    if not (ok_in1 and ok_in2):
        return

    if only_order:
        return
    # path enumeration of one outer iteration
    for idx, l, inner in ((1, l1, in1[0]), (2, l2, in2[0])):
        outcomes, problems = iteration_outcomes(b, l, inner, res)
        for p in problems:
            r.ob("M%d.iteration-paths" % (3 if idx == 1 else 4), "%s: pass %d" % (fn, idx), False, p, site=l["next"], key="M%d|paths|%s" % (3 if idx == 1 else 4, norm(p)[:50]))
        spec_check(r, fn, idx, l, outcomes, b)


def iteration_outcomes(b, l, inner, res):
    """enumerate paths from the Some arm of the outer next() back to the outer header.
    outcome = (frozenset(events), tuple(pushed variants))"""
    nxt = b.succs(l["next"].bb)[0]
    sw = mir.switch_enum(b, nxt)
    start = mir.variant_target(sw, b, "Some")
    outer_item = None
    for st in b.blocks[start]["stmts"]:
        if st["k"] == "assign" and st["rv"]["k"] == "use":
            p = mir.op_place(st["rv"]["op"])
            if p is not None and p["l"] == l["next"].node["dest"]["l"] and any(isinstance(e, dict) and e.get("dc") == "Some" for e in p["p"]):
                outer_item = st["place"]["l"]
    inxt = b.succs(inner["next"].bb)[0]
    isw = mir.switch_enum(b, inxt)
    istart = mir.variant_target(isw, b, "Some")
    inner_item = None
    for st in b.blocks[istart]["stmts"]:
        if st["k"] == "assign" and st["rv"]["k"] == "use":
            p = mir.op_place(st["rv"]["op"])
            if p is not None and p["l"] == inner["next"].node["dest"]["l"]:
                inner_item = st["place"]["l"]
    problems = []
    if outer_item is None or inner_item is None:
        return [], ["shape not recognised: loop items are not bound to variables"]

    def role(t, known=None):
        """which loop item does a term derive from (`known`: variant/payload facts of the current path)"""
        roles = set()
        for st in mir.subterms(t):
            if known and st[0] == "local" and ("v", st[1]) in known:
                roles |= set(known[("v", st[1])][1])
            # scanned[i] with i = the index position() found (the counter of the desugared position loop): the matched item
            if st[0] == "call" and st[1] in ("std::ops::Index::index",) and len(st[2]) == 2:
                ix = strip(st[2][1])
                if ix[0] == "local" and b.locals[ix[1]].get("synthetic") and b.locals[ix[1]]["ty"].get("prim") == "usize" and \
                        strip(st[2][0]) == inner["root"]:
                    roles.add("inner")
            if st[0] == "local" and st[1] == outer_item:
                roles.add("outer")
            if st[0] == "local" and st[1] == inner_item:
                roles.add("inner")
            if st[0] == "proj" and st[1][0] == "call" and len(st[1]) > 3:
                if st[1][3] == l["next"]:
                    roles.add("outer")
                if st[1][3] == inner["next"]:
                    roles.add("inner")
        return roles

    outcomes = set()
    seen = set()
    stack = [(start, (), frozenset(), ())]
    steps = 0
    while stack:
        bb, bools, events, pushed = stack.pop()
        key = (bb, bools, events, pushed)
        if key in seen:
            continue
        seen.add(key)
        steps += 1
        if steps > 20000:
            problems.append("path enumeration exceeded its budget")
            break
        if bb == l["header"]:
            outcomes.add((events, pushed))
            continue
        if bb not in l["blocks"]:
            outcomes.add((events | {("left-loop", bb)}, pushed))
            continue
        blk = b.blocks[bb]
        bd = dict(bools)
        for st in blk["stmts"]:
            if st["k"] == "assign" and not st["place"]["p"]:
                lcl = st["place"]["l"]
                rv = st["rv"]
                if rv["k"] == "agg" and rv.get("kind") == "adt" and rv.get("variant"):
                    bd[("v", lcl)] = (rv["variant"], tuple(sorted(role(term_of(b, rv["ops"][0]), bd)))) if rv["ops"] else (rv["variant"], ())
                elif rv["k"] == "use" and mir.op_place(rv["op"]) is not None and not mir.op_place(rv["op"])["p"] and ("v", mir.op_place(rv["op"])["l"]) in bd:
                    bd[("v", lcl)] = bd[("v", mir.op_place(rv["op"])["l"])]
                if rv["k"] == "use" and "const" in rv["op"] and "bool" in rv["op"]["const"]:
                    bd[lcl] = rv["op"]["const"]["bool"]
                elif rv["k"] == "use" and mir.op_place(rv["op"]) is not None and not mir.op_place(rv["op"])["p"] and mir.op_place(rv["op"])["l"] in bd:
                    bd[lcl] = bd[mir.op_place(rv["op"])["l"]]
                elif rv["k"] == "unop" and rv["op"] == "Not" and mir.op_place(rv["o"]) is not None and not mir.op_place(rv["o"])["p"] and mir.op_place(rv["o"])["l"] in bd:
                    bd[lcl] = not bd[mir.op_place(rv["o"])["l"]]
                elif lcl in bd:
                    bd.pop(lcl)
        t = blk["term"]
        succ = list(b.succs(bb))
        ev = set(events)
        npushed = pushed
        if t["k"] == "call":
            if cname(t) == "std::vec::Vec::push":
                p = mir.op_place(t["args"][0])
                if p is not None and b.through_ref(p)["l"] == res:
                    val = strip(term_of(b, t["args"][1]))
                    variant = val[2] if val[0] == "agg" else "?"
                    payload_roles = role(val)
                    vp = mir.op_place(t["args"][1])
                    if val[0] == "local" and ("v", val[1]) in bd:
                        variant, payload_roles = bd[("v", val[1])][0], set(bd[("v", val[1])][1])
                    elif vp is not None and not vp["p"] and ("v", vp["l"]) in bd:
                        variant, payload_roles = bd[("v", vp["l"])][0], set(bd[("v", vp["l"])][1])
                    npushed = pushed + ((variant, tuple(sorted(payload_roles))),)
                    if len(npushed) > 3:
                        problems.append("more than three pushes on one path of an iteration")
                        continue
        elif t["k"] == "switch":
            opl = mir.op_place(t["op"])
            handled = False
            if opl is not None and not opl["p"] and opl["l"] in bd:
                v = 1 if bd[opl["l"]] else 0
                tgt = None
                for val, blk2 in t["targets"]:
                    if int(val) == v:
                        tgt = blk2
                if tgt is None:
                    tgt = t["otherwise"]
                succ = [tgt]
                pass
                handled = True
            if not handled:
                sw2 = mir.switch_enum(b, bb)
                if sw2 is not None:
                    pt = term_of(b, sw2["place"])
                    pt0 = strip(pt)
                    if pt0[0] == "local" and ("v", pt0[1]) in bd and bd[("v", pt0[1])][0] in sw2["variants"]:
                        # the value was built on this path: only its own variant is feasible
                        tg = mir.variant_target(sw2, b, bd[("v", pt0[1])][0])
                        if tg is not None:
                            stack.append((tg, tuple(sorted(bd.items(), key=lambda kv: str(kv[0]))), frozenset(ev), npushed))
                            continue
                    if sw2["enum"] == "std::option::Option" and strip(pt)[0] == "call" and len(strip(pt)) > 3 and strip(pt)[3] == inner["next"]:
                        for v in ("Some", "None"):
                            tg = mir.variant_target(sw2, b, v)
                            if tg is not None:
                                stack.append((tg, tuple(sorted(bd.items(), key=lambda kv: str(kv[0]))), frozenset(ev | ({("scan-exhausted",)} if v == "None" else set())), npushed))
                        continue
                    if sw2["enum"] == "necessity::Necessity":
                        rl = tuple(sorted(role(pt, bd)))
                        for v in sw2["variants"]:
                            tg = mir.variant_target(sw2, b, v)
                            if tg is not None:
                                stack.append((tg, tuple(sorted(bd.items(), key=lambda kv: str(kv[0]))), frozenset(ev | {("tag", rl, v)}), npushed))
                        continue
                # bool result of an equality call
                ct = strip(term_of(b, t["op"])) if opl is not None else ("x",)
                if ct[0] == "call" and ct[1] in ("std::cmp::PartialEq::eq", "std::cmp::PartialEq::ne") and len(ct[2]) == 2:
                    ra, rb = role(ct[2][0]), role(ct[2][1])
                    a_in = all(_is_inner_t(x) for x in ct[2])
                    pair = tuple(sorted([tuple(sorted(ra)), tuple(sorted(rb))]))
                    for val, blk2 in t["targets"] + [["otherwise", t["otherwise"]]]:
                        truth = (val == "otherwise") if all(int(v) == 0 for v, _ in t["targets"]) else (int(val) != 0 if val != "otherwise" else False)
                        if ct[1].endswith("::ne"):
                            truth = not truth
                        if b.is_unreachable_block(blk2):
                            continue
                        bd2 = bd
                        if truth and a_in and set(pair) == {("inner",), ("outer",)}:
                            # precondition of the property: the scanned list is duplicate-free, so the membership test
                            # of one outer item succeeds for at most one scanned item - a second success is infeasible
                            if bd.get(("matched", bb)):
                                continue
                            bd2 = dict(bd)
                            bd2[("matched", bb)] = True
                        stack.append((blk2, tuple(sorted(bd2.items(), key=lambda kv: str(kv[0]))), frozenset(ev | {("payload-eq", pair, a_in, truth)}), npushed))
                    continue
        for s in succ:
            stack.append((s, tuple(sorted(bd.items(), key=lambda kv: str(kv[0]))), frozenset(ev), npushed))
    return outcomes, problems


def _is_inner_t(t):
    t = strip(t)
    return t[0] == "call" and t[1] == "necessity::Necessity::inner_t"


def spec_check(r, fn, idx, l, outcomes, b):
    """compare the enumerated outcomes with the specification of one pass"""
    site = l["next"]
    if not outcomes:
        r.ob("M%d.iteration-paths" % (3 if idx == 1 else 4), "%s: pass %d" % (fn, idx), False, "no complete path through an iteration was found", site=site,
             key="M%d|nopaths" % idx)
        return
    n_ok = 0
    for events, pushed in sorted(outcomes, key=lambda o: (sorted(map(str, o[0])), o[1])):
        evs = {e[0]: e for e in events}
        eq_true = [e for e in events if e[0] == "payload-eq" and e[3]]
        # an equality that is not between the payloads of the outer and the scanned item is not a membership test
        bad_eq = [e for e in events if e[0] == "payload-eq" and not (e[2] and set(e[1]) == {("inner",), ("outer",)})]
        tags = {(e[1], e[2]) for e in events if e[0] == "tag"}
        found = bool(eq_true)
        both_mand = (("inner",), "Mandatory") in tags and (("outer",), "Mandatory") in tags and \
            not any(v != "Mandatory" for (_, v) in tags)
        desc = "found=%s tags=%s exhausted=%s" % (found, sorted("%s:%s" % ("/".join(a), v) for a, v in tags), ("scan-exhausted",) in events)
        if any(e[0] == "left-loop" for e in events):
            continue  # reported by M5
        if bad_eq:
            r.ob("M3.membership-by-payload", "%s: pass %d" % (fn, idx), False,
                 "membership is decided by an equality that is not `item.inner_t() == scanned.inner_t()` (%s)" % (bad_eq[0][1],), site=site,
                 key="M%d|badeq" % idx)
            continue
        if idx == 1:
            want = "Mandatory" if (found and both_mand) else "Optional"
            ok = len(pushed) == 1 and pushed[0][0] == want and "outer" in pushed[0][1] and "inner" not in pushed[0][1]
            if not found and ("scan-exhausted",) not in events:
                ok = False
                desc += " (item declared absent without scanning the whole other list)"
            why = "path {%s}: pushes %s; specification: exactly one push of %s(item of parameter 1)" % (desc, list(pushed), want)
        else:
            if found:
                ok = len(pushed) == 0
                why = "path {%s}: pushes %s; specification: an item already in the result is not appended again" % (desc, list(pushed))
            else:
                ok = len(pushed) == 1 and pushed[0][0] == "Optional" and "outer" in pushed[0][1] and ("scan-exhausted",) in events
                why = "path {%s}: pushes %s; specification: an item found nowhere in the result is appended once as Optional after a full scan" % (desc, list(pushed))
        n_ok += ok
        r.ob("M%d.outcome-table" % (3 if idx == 1 else 4), "%s: pass %d" % (fn, idx), ok, why, site=site,
             key="M%d|outcome|%s|%s" % (3 if idx == 1 else 4, desc, pushed if not ok else "ok"))
    # the interesting rows must exist (guards against a vacuous enumeration)
    rows = set()
    for events, pushed in outcomes:
        found = any(e[0] == "payload-eq" and e[3] for e in events)
        rows.add((found, tuple(p[0] for p in pushed)))
    need = {(True, ("Mandatory",)), (True, ("Optional",)), (False, ("Optional",))} if idx == 1 else {(True, ()), (False, ("Optional",))}
    missing = need - rows
    r.ob("M%d.outcome-table-complete" % (3 if idx == 1 else 4), "%s: pass %d" % (fn, idx), not missing,
         "all specified rows occur among the %d enumerated path classes" % len(outcomes) if not missing else "rows never produced: %s" % sorted(missing),
         site=site, key="M%d|rows" % idx)
