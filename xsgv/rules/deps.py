"""A8: key tables of the locked deserializer crates (read from the registry sources named by /repo/Cargo.lock)
versus the constants of the two Options presets (read from MIR)."""
import glob
import os
import re

from .. import extract, mir
from ..mir import strip, term_of
from ..report import CheckerFailure


def locked_version(crate):
    lock = os.path.join(extract.REPO, "Cargo.lock")
    txt = open(lock).read()
    m = re.search(r'name = "%s"\nversion = "([^"]+)"' % re.escape(crate), txt)
    return m.group(1) if m else None


def crate_dir(crate, version):
    c = glob.glob(os.path.expanduser("~/.cargo/registry/src/*/%s-%s" % (crate, version)))
    return c[0] if c else None


def _code_lines(path):
    out = []
    in_block = False
    for line in open(path, encoding="utf-8", errors="replace"):
        s = line.strip()
        if s.startswith("//"):
            continue
        out.append(line.split("//")[0] if '"' not in line.split("//")[0][-1:] else line)
    return out


def dollar_keys(d, sub="src/de"):
    keys = {}
    for f in sorted(glob.glob(os.path.join(d, sub, "*.rs"))):
        in_tests = False
        for i, line in enumerate(_code_lines(f)):
            if "#[cfg(test)]" in line:
                in_tests = True
            if in_tests:
                continue
            for m in re.finditer(r'"(\$[A-Za-z_]+)"', line):
                keys.setdefault(m.group(1), "%s:%d" % (os.path.relpath(f, d), i + 1))
    return keys


def pushed_prefix_chars(d, rel="src/de/key.rs"):
    p = os.path.join(d, rel)
    if not os.path.exists(p):
        return []
    return re.findall(r"\.push\('([^'\\])'\)", "".join(_code_lines(p)))


def preset_body(lib, path):
    """body of a parameterless Options constructor with private helpers and the *other* parameterless constructors of
    Options it starts from (`..Self::quick_xml_de()`) inlined"""
    def pred(cb, t):
        f = lib.fns.get(cb.name, {})
        if not f.get("pub"):
            return True
        return not f.get("inputs") and f.get("impl_self", {}).get("adt") == "options::Options" and cb.name != path
    return mir.inline_calls(lib, lib.bodies[path], pred)


def returned_options(b):
    """the Options aggregates that can be the returned value: built in the return place, or moved there"""
    aggs = [s for s in b.assigns() if s.node["rv"]["k"] == "agg" and s.node["rv"].get("adt") == "options::Options"]
    direct = [s for s in aggs if s.node["place"]["l"] == 0 and not s.node["place"]["p"]]
    if direct:
        return direct
    out = []
    for s in aggs:
        l = s.node["place"]["l"]
        if not s.node["place"]["p"] and any(a.node["place"]["l"] == 0 and not a.node["place"]["p"] and a.node["rv"]["k"] == "use" and
                                           (mir.op_place(a.node["rv"]["op"]) or {}).get("l") == l for a in b.assigns()):
            out.append(s)
    return out or (aggs if len(aggs) == 1 else [])


def preset_constants(lib):
    out = {}
    for path, f in lib.fns.items():
        if f.get("impl_self", {}).get("adt") != "options::Options" or path not in lib.bodies:
            continue
        if f["inputs"]:
            continue
        b = preset_body(lib, path)
        rets = returned_options(b)
        if len(rets) != 1:
            continue
        s = rets[0]
        rv = s.node["rv"]
        vals = {}
        for name, o in zip(rv["fields"], rv["ops"]):
            t = strip(term_of(b, o), mir.VALUE_PRESERVING)
            vals[name] = t[1] if t[0] == "const" else ("" if t[0] == "call" and t[1] == "std::string::String::new" else None)
        out[path.rsplit("::", 1)[1]] = (vals, s)
    return out


def check_preset(r, lib, preset, crate, expect_prefix_from_key_rs):
    ver = locked_version(crate)
    d = crate_dir(crate, ver) if ver else None
    r.ob("A8.locked-dependency", crate, d is not None, "%s %s (Cargo.lock) sources at %s" % (crate, ver, d) if d else "%s is not in Cargo.lock / the registry cache" % crate,
         key="A8.locked|%s" % crate)
    if d is None:
        return
    pcs = preset_constants(lib)
    if preset not in pcs:
        r.ob("A8.preset", preset, False, "Options::%s not found or not a plain constructor of constants" % preset, key="A8.preset|%s" % preset)
        return
    vals, site = pcs[preset]
    keys = dollar_keys(d)
    r.count("deserializer `$` keys [%s]" % crate, len(keys))
    if not keys:
        r.ob("A8.key-table", crate, False, "no `$`-prefixed key literal found in %s/src/de (table not recognised)" % crate, key="A8.keys|%s" % crate)
        return
    ti = vals.get("text_identifier")
    ok = ti in keys
    r.ob("A8.text-key", "Options::%s" % preset, ok,
         "text_identifier %r is a key %s %s recognises (%s)" % (ti, crate, ver, keys.get(ti)) if ok else
         "text_identifier %r is not among the special keys %s %s recognises %s: text content bound to it is silently dropped" % (ti, crate, ver, sorted(keys)),
         site=site, key="A8.text-key|%s|%s|%s@%s" % (preset, ti, crate, ver))
    dv = vals.get("derive")
    toks = [x.strip() for x in dv.split(",")] if isinstance(dv, str) else None
    known = {"Serialize", "Deserialize", "Debug", "Clone", "PartialEq", "Eq", "Hash", "Default", "PartialOrd", "Ord"}
    ok = toks is not None and "Deserialize" in toks and all(x in known for x in toks)
    r.ob("A8.derive-default", "Options::%s" % preset, ok, "default derive list %r names derive macros in scope and includes Deserialize" % dv if ok else
         "default derive list %r: every entry must be a derive macro that `use serde::{Deserialize, Serialize}` / std provide, and Deserialize is needed by from_str" % (dv,),
         site=site, key="A8.derive|%s|%s" % (preset, dv))
    ap = vals.get("attribute_prefix")
    if expect_prefix_from_key_rs:
        chars = pushed_prefix_chars(d)
        ok = len(chars) >= 1 and ap == chars[0]
        r.ob("A8.attribute-prefix", "Options::%s" % preset, ok, "attribute_prefix %r is the marker %s's key deserializer prepends to attribute names" % (ap, crate) if ok else
             "attribute_prefix %r, but %s marks attributes with %s" % (ap, crate, chars), site=site, key="A8.prefix|%s|%s" % (preset, ap))
    else:
        chars = []
        for f in glob.glob(os.path.join(d, "src/de/*.rs")):
            chars += re.findall(r"\.push\('(@)'\)|format!\(\"(@)\{", "".join(_code_lines(f)))
        ok = ap == "" and not chars
        r.ob("A8.attribute-prefix", "Options::%s" % preset, ok, "attribute_prefix is empty and %s binds attributes by their plain name" % crate if ok else
             "attribute_prefix %r vs %s's attribute naming (%s)" % (ap, crate, chars), site=site, key="A8.prefix|%s|%s" % (preset, ap))
    r.trust("%s %s source files in the cargo registry are what the generated code is compiled against" % (crate, ver))
