"""A6: model of the renderer: the function(s) taking &Options and returning the
generated source, their accumulators, emission sites with decoded templates,
the attribute / children loops and the option reads."""
import re

from .. import fmt, mir
from ..mir import strip, term_of, term_s
from .common import arg_ty, cname, find_loop_of, method, norm, self_ty

RENAME_RE = re.compile(r'^\s*#\[serde\(rename = "\{\}"\)\]\n$')
FIELD_RE = re.compile(r'^\s*pub \{\}: (.+),\n$')
HEADER_RE = re.compile(r'^pub struct \{\} \{\n$')
DERIVE_RE = re.compile(r'^#\[derive\(\{\}\)\]\n$')


class Emission:
    def __init__(self, site, acc, value, arguments=False):
        self.site = site
        self.acc = acc
        self.value = value          # stripped term of the appended &str (or of the fmt::Arguments for write!)
        self.fmt = fmt.arguments_of(value) if arguments else fmt.format_of(value)
        self.template = fmt.template_s(self.fmt[0]) if self.fmt else None
        self.args = [a for a in self.fmt[1]] if self.fmt else []
        self.kind = self._classify()

    @classmethod
    def composed(cls, site, acc, value, pieces, args):
        """an emission whose template was composed from the line's template and the template of one of its arguments"""
        e = cls.__new__(cls)
        e.site, e.acc, e.value = site, acc, value
        e.fmt = (pieces, args)
        e.template = fmt.template_s(pieces)
        e.args = list(args)
        e.kind = e._classify()
        return e

    def _classify(self):
        v = self.value
        if self.fmt:
            t = self.template
            if RENAME_RE.match(t):
                return "rename"
            if FIELD_RE.match(t):
                return "field"
            if HEADER_RE.match(t):
                return "header"
            if DERIVE_RE.match(t):
                return "derive"
            return "other-format"
        if v[0] == "const" and isinstance(v[1], str):
            return "closer" if v[1].strip() == "}" else "literal"
        if v[0] == "call" and v[1] == "std::string::String::new":
            return "append-acc"
        if v[0] == "local":
            return "append-acc"
        if v[0] == "call" and len(v) > 3 and v[3].node["callee"].get("path") == self.site.body.name:
            return "child-structs"
        return "value"

    def field_type(self):
        m = FIELD_RE.match(self.template or "")
        return m.group(1) if m else None

    def __repr__(self):
        return "<%s %r @%s>" % (self.kind, self.template if self.template is not None else term_s(self.value)[:40], self.site.loc())


def _exclusive(b, defs, use_bb):
    """the definitions are alternatives with respect to the use: from none of them another one can be reached without
    passing the use first"""
    for d in defs:
        seen = set()
        for nb in b.succs(d.bb):
            if nb != use_bb:
                seen |= b.reach_from(nb, avoid={use_bb})
        if any(o is not d and o.bb in seen for o in defs):
            return False
    return True


class Renderer:
    def _rehome_nested(self, b, accs):
        """a String that is created empty, only appended to, and appended as a whole to another accumulator exactly once,
        with nothing else appended to that accumulator in between, is a part of it: its emissions are that accumulator's"""
        for _ in range(3):
            moved = False
            for t in sorted(accs):
                if t == self.main or t == self.out_param:
                    continue
                news = [d for d in b.defs().get(t, []) if d.si is None and cname(d.node) in ("std::string::String::new", "std::string::String::with_capacity")]
                if len(news) != 1 or len(b.defs().get(t, [])) != 1:
                    continue

                def is_t(v):
                    v = strip(v, mir.TRANSPARENT_CALLS)
                    return v == ("local", t) or (v[0] == "call" and len(v) > 3 and v[3] is not None and v[3].bb == news[0].bb and v[3].si is None)
                apps = [e for e in self.emissions if e.kind == "append-acc" and e.acc != t and is_t(e.value)]
                own = [e for e in self.emissions if e.acc == t]
                if len(apps) != 1 or not own:
                    continue
                a = apps[0]
                # between the creation of t and its append, nothing else is appended to the target
                span_blocks = b.reach_from(news[0].bb, avoid={a.site.bb}) if hasattr(b, "reach_from") else set()
                if a.site.bb not in b.reach_from(news[0].bb):
                    continue
                clash = [e for e in self.emissions if e.acc == a.acc and e is not a and e.site.bb in span_blocks and e.site.bb != news[0].bb]
                if clash:
                    continue
                # every appended part is followed by the append of the whole: the append depends on nothing the parts do not
                adeps = b.transitive_control_deps(a.site.bb)
                if any(not adeps <= b.transitive_control_deps(e.site.bb) for e in own):
                    continue
                for e in own:
                    e.acc = a.acc
                self.emissions.remove(a)
                accs.discard(t)
                moved = True
            if not moved:
                break

    def _split_lines(self):
        """one template holding several lines is the same text as the lines emitted one after the other"""
        out = []
        for e in self.emissions:
            if not e.fmt or e.template is None or e.template.count("\n") < 2 or not e.template.endswith("\n"):
                out.append(e)
                continue
            pieces, args = e.fmt
            lines, cur = [], []
            for p in pieces:
                if isinstance(p, str):
                    parts = p.split("\n")
                    for i, part in enumerate(parts):
                        if i > 0:
                            cur.append("\n")
                            lines.append(cur)
                            cur = []
                        if part:
                            cur.append(part)
                else:
                    cur.append(p)
            if cur:
                lines.append(cur)
            for ln in lines:
                used = [q[1] for q in ln if not isinstance(q, str)]
                remap = {old: new for new, old in enumerate(used)}
                np_ = []
                for q in ln:
                    if isinstance(q, str):
                        if np_ and isinstance(np_[-1], str):
                            np_[-1] += q
                        else:
                            np_.append(q)
                    else:
                        np_.append(("arg", remap[q[1]], q[2] if len(q) > 2 else None))
                out.append(Emission.composed(e.site, e.acc, e.value, np_, [args[i] for i in used]))
        self.emissions = out

    def _expand_argument(self, b, e, accs, depth=0):
        """format!("..{}..", x) where x is a String chosen among several alternatives before the line is emitted
        (`let ty = match .. { .. => format!("Option<{}>", t), .. => t }`): one emission per alternative with the composed
        template, located where the alternative is built.  Only when the emission itself depends on nothing the alternative
        does not depend on (so: alternative built => line emitted with it)."""
        TR = mir.TRANSPARENT_CALLS + ("std::hint::must_use",)
        pieces, args = e.fmt
        for k, (kind, at) in enumerate(args):
            t = strip(at, TR)
            if kind != "display" or t[0] != "local" or t[1] in accs:
                continue
            lty = b.local_ty(t[1]) or {}
            if not ((lty.get("adt") == "std::string::String" and not lty.get("refs", 0)) or (lty.get("prim") == "str" and lty.get("refs", 0) == 1)):
                continue
            defs = b.defs().get(t[1], [])
            if len(defs) < 2:
                continue
            alts = []
            for d in defs:
                if d.si is None:
                    at2 = strip(("call", mir._norm(d.node["callee"].get("path", "")), [term_of(b, a) for a in d.node["args"]], d), TR)
                elif d.node["k"] == "assign" and d.node["rv"]["k"] == "use" and not d.node["place"]["p"]:
                    at2 = strip(term_of(b, d.node["rv"]["op"]), TR)
                elif d.node["k"] == "assign" and d.node["rv"]["k"] == "ref" and not d.node["rv"].get("mut") and not d.node["place"]["p"]:
                    at2 = strip(term_of(b, {"copy": d.node["rv"]["place"]}), TR)     # `&*"literal"`
                else:
                    return None
                if at2 == t:
                    return None
                alts.append((d, at2))
            def is_lit(a):
                return a[0] == "const" and isinstance(a[1], str)
            # a literal alternative is folded into the template only when every alternative is a literal or a format
            # (a slot filled by `match .. { Some(name) => name, None => "text" }` stays a slot)
            fold = all(fmt.format_of(a) is not None or is_lit(a) for _, a in alts)
            if not any(fmt.format_of(a) is not None or (fold and is_lit(a)) for _, a in alts):
                continue
            edeps = b.transitive_control_deps(e.site.bb)
            if any(not edeps <= b.transitive_control_deps(d.bb) for d, _ in alts):
                continue
            if not _exclusive(b, [d for d, _ in alts], e.site.bb):
                continue            # built up step by step (`ty = format!("Vec<{}>", ty)`): not alternatives
            out = []
            for d, a in alts:
                f = fmt.format_of(a)
                if f is not None:
                    sub_p, sub_a = f
                elif fold and is_lit(a):
                    sub_p, sub_a = [a[1]], []           # a literal alternative is part of the template
                else:
                    sub_p, sub_a = [("arg", 0, None)], [("display", a)]
                np_, na = [], list(args[:k]) + list(sub_a) + list(args[k + 1:])
                for p in pieces:
                    if isinstance(p, str):
                        np_.append(p)
                    elif p[1] == k:
                        if len(p) > 2 and p[2]:
                            return None         # width/precision applied to the composed text
                        for q in sub_p:
                            np_.append(q if isinstance(q, str) else ("arg", k + q[1], q[2] if len(q) > 2 else None))
                    elif p[1] > k:
                        np_.append(("arg", p[1] + len(sub_a) - 1, p[2] if len(p) > 2 else None))
                    else:
                        np_.append(p)
                merged = []
                for q in np_:
                    if isinstance(q, str) and merged and isinstance(merged[-1], str):
                        merged[-1] += q
                    else:
                        merged.append(q)
                site = d if d.si is None else mir.Site(b, d.bb, None)
                ne = Emission.composed(site, e.acc, e.value, merged, na)
                deeper = self._expand_argument(b, ne, accs, depth + 1) if depth < 2 else None
                out += deeper if deeper else [ne]
            return out
        return None

    def __init__(self, lib):
        self.lib = lib
        self.problems = []
        cands = []
        # private structs that carry a reference to the options (a render context)
        self.carriers = set()
        for ap, adt in lib.adts.items():
            if ap != "options::Options" and not adt["pub"] and any(fl["ty"].get("adt") == "options::Options" for v in adt["variants"] for fl in v["fields"]):
                self.carriers.add(ap)
        for path, f in lib.fns.items():
            if path not in lib.bodies:
                continue
            ins = [i.get("adt") for i in f["inputs"]]
            out_param = any(i.get("s", "").startswith("&mut std::string::String") for i in f["inputs"])
            sees_options = "options::Options" in ins or any(i in self.carriers for i in ins)
            if sees_options and (f["output"].get("adt") == "std::string::String" or out_param):
                cands.append(lib.bodies[path])
        self.option_fns = sorted(b.name for b in cands)
        def _emits_somewhere(b0):
            if any(cname(c.node) in ("std::string::String::push_str", "std::fmt::Write::write_fmt") for c in b0.calls()):
                return True
            # through a private helper taking the accumulator
            for c in b0.calls():
                cb = lib.bodies.get(c.node["callee"].get("path"))
                if cb is not None and cb.name != b0.name and any(x.get("s", "").startswith("&mut std::string::String") for x in lib.fns.get(cb.name, {}).get("inputs", [])):
                    return True
            return False
        with_push = [b for b in cands if _emits_somewhere(b)]
        if len(with_push) > 1:
            # the renderer proper is the recursive one; a public entry that only creates the buffer is not
            rec = [b for b in with_push if any(c.node["callee"].get("path") == b.name for c in b.calls())]
            if len(rec) == 1:
                with_push = rec
        self.ok = len(with_push) == 1
        if not self.ok:
            self.problems.append("expected one emitting function with an &Options parameter, found %s" % [b.name for b in with_push])
            return
        b = with_push[0]
        f = lib.fns[b.name]
        # look through private helpers that write into a caller-supplied String (extracted emission code)
        self.helpers = set()
        self.orig_name = b.name

        def emits(cb, t, _self=self):
            ff = lib.fns.get(cb.name, {})
            if ff.get("pub"):
                return False
            ins = ff.get("inputs", [])
            writes_acc = any(x.get("s", "").startswith("&mut std::string::String") for x in ins)
            # a text builder: strings in, String out (e.g. fn rename_line(name: &str) -> String { format!(..) })
            # (the options themselves may be among the inputs: fn derive_line(&self: &Options) -> String - the field reads
            # then appear in the renderer's own body, where the use-set rules judge them)
            text_builder = ff.get("output", {}).get("adt") == "std::string::String" and ins and \
                all(x.get("prim") in ("str", "bool") or x.get("adt") in ("std::string::String", "options::Options") or x.get("adt") in _self.carriers for x in ins)
            # a private function that is handed the options and returns text is a piece of this renderer (an extracted
            # field rendering): its reads of the options belong to the renderer's use set
            sees = any(x.get("adt") == "options::Options" or x.get("adt") in _self.carriers for x in ins)
            piece = sees and ff.get("output", {}).get("adt") == "std::string::String" and not ff.get("output", {}).get("refs", 0) and cb.name != _self.orig_name
            if not (writes_acc or text_builder or piece):
                return False
            _self.helpers.add(cb.name)
            return True
        b = self.body = mir.inline_calls(lib, b, emits)
        direct = [i for i, t in enumerate(f["inputs"]) if t.get("adt") == "options::Options"]
        self.ctx_arg = None
        if direct:
            self.opt_arg = direct[0] + 1
        else:
            self.ctx_arg = [i for i, t in enumerate(f["inputs"]) if t.get("adt") in self.carriers][0] + 1
            self.opt_arg = self.ctx_arg
        self.self_arg = 1
        self.entry = [x for x in cands if x.name != self.orig_name]
        # accumulators
        self.main = None
        self.out_param = None
        for i, t in enumerate(f["inputs"]):
            if t.get("s", "").startswith("&mut std::string::String"):
                self.out_param = i + 1
        if self.out_param is not None:
            self.main = self.out_param
        for s in b.assigns():
            if s.node["place"]["l"] == 0 and not s.node["place"]["p"] and s.node["rv"]["k"] == "use":
                p = mir.op_place(s.node["rv"]["op"])
                if p is not None and not p["p"]:
                    self.main = p["l"]
        self.emissions = []
        accs = set()
        raw = []
        for cs in b.calls():
            if cname(cs.node) == "std::string::String::push_str":
                p = mir.op_place(cs.node["args"][0])
                root = b.through_ref(p) if p is not None else None
                if root is not None and root["p"] == ["deref"] and root["l"] == self.out_param:
                    root = {"l": root["l"], "p": []}
                if root is None or root["p"]:
                    self.problems.append("push_str onto something that is not a local String at %s" % cs.loc())
                    continue
                v = strip(term_of(b, cs.node["args"][1]), mir.TRANSPARENT_CALLS + ("std::hint::must_use",))
                raw.append((cs, root["l"], v))
                accs.add(root["l"])
        for cs, acc, v in raw:
            if v[0] == "local" and v[1] not in accs:
                # a line built in several alternatives (e.g. `let line = match .. { .. => format!(..), .. }`) and pushed once:
                # one emission per alternative, located where the alternative is built
                alts = []
                for d in b.defs().get(v[1], []):
                    if d.si is None:
                        t = strip(term_of(b, d.node["dest"]), mir.TRANSPARENT_CALLS + ("std::hint::must_use",)) if False else \
                            ("call", mir._norm(d.node["callee"].get("path", "")), [term_of(b, a) for a in d.node["args"]], d)
                        t = strip(t, mir.TRANSPARENT_CALLS + ("std::hint::must_use",))
                    elif d.node["k"] == "assign" and d.node["rv"]["k"] == "use":
                        t = strip(term_of(b, d.node["rv"]["op"]), mir.TRANSPARENT_CALLS + ("std::hint::must_use",))
                    else:
                        t = None
                    if t is not None and fmt.format_of(t) is not None:
                        alts.append((d, t))
                    elif t is not None and ((t[0] == "call" and t[1] == "std::string::String::new") or t == ("const", "")):
                        alts.append((d, None))      # the empty alternative appends nothing
                    else:
                        alts = None
                        break
                if alts and any(t is not None for _, t in alts) and _exclusive(b, [d for d, _ in alts], cs.bb):
                    for d, t in alts:
                        if t is None:
                            continue
                        site = d if d.si is None else mir.Site(b, d.bb, None)
                        self.emissions.append(Emission(site, acc, t))
                    continue
            e0 = Emission(cs, acc, v)
            exp = self._expand_argument(b, e0, accs) if e0.fmt else None
            if exp:
                self.emissions += exp
            else:
                self.emissions.append(e0)
        for cs in b.calls():
            if cname(cs.node) == "std::fmt::Write::write_fmt" and arg_ty(b, cs.node["args"][0]).get("adt") == "std::string::String":
                p = mir.op_place(cs.node["args"][0])
                root = b.through_ref(p) if p is not None else None
                if root is None or root["p"]:
                    self.problems.append("write! onto something that is not a local String at %s" % cs.loc())
                    continue
                e0 = Emission(cs, root["l"], term_of(b, cs.node["args"][1]), arguments=True)
                exp = self._expand_argument(b, e0, accs | {root["l"]}) if e0.fmt else None
                self.emissions += exp if exp else [e0]
                accs.add(root["l"])
        # out-parameter style: the recursive call appends the child's structs directly to a local accumulator
        if self.out_param is not None:
            for cs in b.calls():
                if cs.node["callee"].get("path") == self.orig_name and len(cs.node["args"]) >= self.out_param:
                    p = mir.op_place(cs.node["args"][self.out_param - 1])
                    root = b.through_ref(p) if p is not None else None
                    if root is not None and not root["p"] and root["l"] != self.out_param:
                        e = Emission(cs, root["l"], ("call", mir._norm(self.orig_name), [], cs))
                        e.kind = "child-structs"
                        self.emissions.append(e)
                        accs.add(root["l"])
        self.emissions.sort(key=lambda e: e.site.bb)
        self._rehome_nested(b, accs)
        self._split_lines()
        self.accs = accs
        self.child_acc = None
        others = accs - {self.main}
        if len(others) == 1:
            self.child_acc = next(iter(others))
        elif others:
            self.problems.append("more than two accumulators")
        # loops over attributes / children
        self.attr_loop = self.child_loop = None
        for cs in b.calls():
            if cname(cs.node) != "std::iter::Iterator::next":
                continue
            sty = self_ty(cs.node).get("s", "")
            lp = find_loop_of(b, cs.bb)
            if lp is None:
                continue
            info = {"next": cs, "header": lp[0], "blocks": lp[1], "iter_ty": sty}
            if "Necessity<element::Element<" in sty:
                if self.child_loop is not None:
                    self.problems.append("several loops over children")
                self.child_loop = info
            elif "Necessity<T>" in sty or "Necessity<" in sty:
                if self.attr_loop is not None:
                    self.problems.append("several loops over attributes")
                self.attr_loop = info
        for name, l in (("attribute", self.attr_loop), ("children", self.child_loop)):
            if l is None:
                self.problems.append("no %s loop found" % name)
            else:
                l["source"], l["chain"] = self._iter_source(l["next"])
                nxt = b.succs(l["next"].bb)[0]
                sw = mir.switch_enum(b, nxt)
                l["some"] = mir.variant_target(sw, b, "Some") if sw else None
                l["none"] = mir.variant_target(sw, b, "None") if sw else None
        # text block
        self.text_switch = None
        for cs in b.calls():
            if cname(cs.node) in ("std::option::Option::is_some", "std::option::Option::is_none") and cs.node["args"]:
                t = strip(term_of(b, cs.node["args"][0]))
                if t[0] == "proj" and t[1] == ("arg", self.self_arg) and any(e != "*" and e[0] == "f" and e[3] == "text" for e in t[2]):
                    nb = b.succs(cs.bb)
                    if nb and b.blocks[nb[0]]["term"]["k"] == "switch":
                        tt = b.blocks[nb[0]]["term"]
                        truthy = tt["otherwise"] if cname(cs.node).endswith("is_some") else tt["targets"][0][1]
                        self.text_switch = {"site": cs, "switch_bb": nb[0], "present": truthy}
        if self.text_switch is None:
            self.problems.append("no `self.text.is_some()` test found")
        self.ok = not self.problems

    def _iter_source(self, next_site):
        """the local vector iterated (follows iter()/into_iter()/deref), and the chain of callee names"""
        b = self.body
        t = strip(term_of(b, next_site.node["args"][0]))
        if t[0] == "local":
            ds = [d for d in b.defs().get(t[1], []) if d.si is not None and d.node["k"] == "assign" and not d.node["place"]["p"]]
            if len(ds) == 1 and ds[0].node["rv"]["k"] == "use":
                t = strip(term_of(b, ds[0].node["rv"]["op"]))
        chain = []
        while t[0] == "call" and t[2] and t[1] in ("std::iter::IntoIterator::into_iter", "core::slice::iter", "std::vec::Vec::iter") + mir.TRANSPARENT_CALLS:
            chain.append(t[1])
            t = strip(t[2][0])
        return t, chain

    def region_of_edge(self, branch_bb, succ):
        """blocks control dependent (transitively) on taking edge branch_bb -> succ"""
        b = self.body
        out = set()
        for n in b.reachable():
            if (branch_bb, succ) in b.transitive_control_deps(n):
                out.add(n)
        return out

    def emissions_in(self, blocks):
        return [e for e in self.emissions if e.site.bb in blocks]

    def option_roots(self):
        """locals that hold the &Options: the parameter itself, or copies of the options field of a context parameter"""
        b = self.body
        if self.ctx_arg is None:
            return {self.opt_arg}
        roots = set()
        changed = True
        while changed:
            changed = False
            for s in b.assigns():
                n = s.node
                if n["place"]["p"] or n["rv"]["k"] != "use":
                    continue
                src = mir.op_place(n["rv"]["op"])
                if src is None:
                    continue
                cs = b.canon(src)
                from_ctx = cs["l"] == self.ctx_arg and any(isinstance(e, dict) and e.get("adt") in self.carriers and (e.get("ty") or "").find("options::Options") >= 0 for e in cs["p"])
                from_root = cs["l"] in roots and not cs["p"]
                if (from_ctx or from_root) and n["place"]["l"] not in roots:
                    roots.add(n["place"]["l"])
                    changed = True
        return roots

    def option_field_reads(self):
        """(field name or None for the whole struct, Site, place) for every read through the &Options"""
        b = self.body
        out = []
        roots = self.option_roots()
        for s in b.sites():
            for p in mir.site_reads(s):
                cp = b.canon(p)
                if cp["l"] not in roots:
                    # direct path through the context: (*(*ctx).options).field
                    if self.ctx_arg is not None and cp["l"] == self.ctx_arg:
                        fs = [e for e in cp["p"] if isinstance(e, dict) and "f" in e]
                        if len(fs) >= 2 and fs[0].get("adt") in self.carriers and fs[1].get("adt") == "options::Options":
                            out.append((fs[1]["f"], s, cp))
                    continue
                if self.ctx_arg is not None and s.si is not None and s.node["k"] == "assign" and s.node["rv"]["k"] == "use" and not cp["p"]:
                    continue  # copying the reference into another local
                fields = [e["f"] for e in cp["p"] if isinstance(e, dict) and "f" in e and e.get("adt") == "options::Options"]
                out.append((fields[0] if fields else None, s, cp))
        return out
