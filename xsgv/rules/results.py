"""A3: error discipline - every Result produced in the crate is propagated;
closed inventory of error constructors with provenance."""
from .. import mir
from ..mir import strip, term_of, term_s
from .common import arg_ty, cname, method, norm, self_ty

TRANSFORMERS = {"std::result::Result::map_err", "std::result::Result::map", "std::result::Result::and_then",
                "std::result::Result::inspect", "std::result::Result::inspect_err", "std::result::Result::as_ref",
                "std::result::Result::as_mut", "std::result::Result::copied", "std::result::Result::cloned",
                "std::option::Option::transpose", "std::result::Result::transpose"}
SWALLOWERS = {"ok", "err", "unwrap_or", "unwrap_or_else", "unwrap_or_default", "is_ok", "is_err", "is_ok_and", "is_err_and",
              "or", "or_else", "iter", "iter_mut", "into_iter", "map_or", "map_or_else", "unwrap", "expect", "unwrap_err",
              "expect_err", "drop", "forget", "flatten", "is_some_and", "is_none_or"}
ITER_SWALLOWERS = {"flatten", "filter_map", "flat_map", "map_while", "take_while", "skip_while", "filter", "find_map", "try_for_each"}


def is_result(ty):
    return ty.get("adt") == "std::result::Result"


def is_opt_result(ty):
    return ty.get("adt") == "std::option::Option" and ty.get("targs") and ty["targs"][0].get("adt") == "std::result::Result"


def _tracked(body, start):
    tr = set(start)
    ch = True
    while ch:
        ch = False
        for s in body.assigns():
            n = s.node
            if n["place"]["p"]:
                continue
            rv = n["rv"]
            if rv["k"] == "use":
                p = mir.op_place(rv["op"])
                if p is not None and not p["p"] and p["l"] in tr and n["place"]["l"] not in tr:
                    tr.add(n["place"]["l"])
                    ch = True
    return tr


def err_path_ok(body, start_bb, producer, stop_blocks, state=None):
    """from start_bb every path must end in `_0 = Err(.. derived from producer ..)` / from_residual(_0) + return.
    -> (ok, why)"""
    bad = []

    def visit(bb, st):
        blk = body.blocks[bb]
        if bb in stop_blocks:
            return ("bad", "control returns to %s (the error is not returned)" % mir.Site(body, bb, None).loc())
        for si, s in enumerate(blk["stmts"]):
            if s["k"] == "assign" and s["place"]["l"] == 0 and not s["place"]["p"]:
                rv = s["rv"]
                if rv["k"] == "agg" and rv.get("adt") == "std::result::Result" and rv["variant"] == "Err":
                    if producer is None:
                        return ("ok", bb)
                    org = body.origins(rv["ops"][0])
                    if ("call", producer) in org:
                        return ("ok", bb)
                    return ("bad", "returns an Err that does not carry the reported error (%s)" % mir.Site(body, bb, si).loc())
                return ("bad", "assigns a non-error return value at %s" % mir.Site(body, bb, si).loc())
        t = blk["term"]
        if t["k"] == "call" and t["dest"]["l"] == 0 and not t["dest"]["p"]:
            if cname(t) == "std::ops::FromResidual::from_residual":
                return ("ok", bb)
            return ("bad", "return value produced by %s" % cname(t))
        if t["k"] == "return":
            return ("bad", "reaches `return` without an error value")
        return None
    outs = mir.walk_paths(body, start_bb, visit, state=state)
    for o in outs:
        if o[0] != "ok":
            bad.append(o[1] if o[0] == "bad" else "path ends in %s" % (o,))
    if bad:
        return False, "; ".join(sorted(set(map(str, bad)))[:3])
    if not outs:
        return False, "no path"
    return True, "every path from the error outcome returns an Err carrying it"


def branch_propagates(body, branch_site):
    """`?`: Break payload -> from_residual -> _0 -> return"""
    nxt = body.succs(branch_site.bb)
    sw = mir.switch_enum(body, nxt[0]) if len(nxt) == 1 else None
    if sw is None:
        return False, "result of Try::branch is not matched"
    brk = mir.variant_target(sw, body, "Break")
    if brk is None:
        return False, "no Break arm"
    return err_path_ok(body, brk, None, {branch_site.bb})


def first_switches(body, from_bb, tracked, enum):
    """switch blocks on a tracked local that are reached first from from_bb (later re-tests of the
    same discriminant are drop-elaboration artefacts and are ignored)"""
    found = set()
    seen = set()
    work = list(body.succs(from_bb))
    while work:
        bb = work.pop()
        if bb in seen:
            continue
        seen.add(bb)
        sw = mir.switch_enum(body, bb)
        if sw is not None and sw["enum"] == enum:
            cp = body.canon(sw["place"])
            if cp["l"] in tracked and not cp["p"]:
                found.add(bb)
                continue
        work.extend(body.succs(bb))
    return found


def result_fate(body, site, locals_, producer, depth=0):
    """-> list of (ok, why, Site)"""
    out = []
    tr = _tracked(body, locals_)
    consumed = False
    firsts = first_switches(body, producer.bb, tr, "std::result::Result") if producer is not None else _first_from_entry(body, tr)
    for s in body.sites():
        n = s.node
        if s == site:
            continue
        if s.si is not None:
            if n["k"] != "assign":
                continue
            rv = n["rv"]
            if n["place"]["l"] == 0 and not n["place"]["p"] and rv["k"] == "use":
                p = mir.op_place(rv["op"])
                if p is not None and not p["p"] and p["l"] in tr:
                    consumed = True
                    out.append((True, "returned to the caller as the function result", s))
            continue
        if n["k"] == "switch":
            sw = mir.switch_enum(body, s.bb)
            if s.bb in firsts and sw is not None:
                consumed = True
                err = mir.variant_target(sw, body, "Err")
                if err is None:
                    out.append((False, "match on the Result has no reachable Err outcome", s))
                else:
                    ok, why = err_path_ok(body, err, producer, ({producer.bb} if producer is not None else set()) | {s.bb})
                    out.append((ok, "matched: " + why, s))
            continue
        if n["k"] != "call":
            continue
        used = False
        for a in n["args"]:
            p = mir.op_place(a)
            if p is None:
                continue
            cp = body.through_ref(p)
            if cp["l"] in tr and all(e == "deref" for e in cp["p"]):
                used = True
        if not used:
            continue
        name = cname(n)
        m = method(n)
        consumed = True
        if name == "std::ops::Try::branch":
            ok, why = branch_propagates(body, s)
            out.append((ok, "`?`: " + why, s))
        elif name in TRANSFORMERS:
            if n["dest"]["l"] == 0 and not n["dest"]["p"]:
                out.append((True, "`%s` result is the function's return value" % m, s))
            elif depth < 6:
                sub = result_fate(body, s, {n["dest"]["l"]}, producer, depth + 1)
                out.extend(sub if sub else [(False, "result of `%s` is never consumed" % m, s)])
        elif m in SWALLOWERS or m in ITER_SWALLOWERS:
            out.append((False, "Result is handed to `%s`, which discards or softens the error" % name, s))
        elif name in ("std::iter::IntoIterator::into_iter",):
            out.append((False, "Result iterated (error discarded)", s))
        else:
            out.append((False, "Result is handed to `%s` (not a recognised propagation)" % name, s))
    if not consumed:
        out.append((False, "Result is produced and then dropped without being inspected", site))
    return out


def _first_from_entry(body, tracked):
    found = set()
    seen = set()
    work = [0]
    while work:
        bb = work.pop()
        if bb in seen:
            continue
        seen.add(bb)
        sw = mir.switch_enum(body, bb)
        if sw is not None and sw["enum"] == "std::result::Result":
            cp = body.canon(sw["place"])
            if cp["l"] in tracked and not cp["p"]:
                found.add(bb)
                continue
        work.extend(body.succs(bb))
    return found


def scan_results(run, crate, prefix="A3", only=None):
    n = 0
    for body in crate.real_bodies():
        if only is not None and body.name not in only:
            continue
        # Result-typed parameters (by value) of crate functions are values to account for as well
        if body.kind != "closure" and not body.name.startswith("<") :
            for i in range(1, body.arg_count + 1):
                if is_result(body.local_ty(i)) and body.local_ty(i).get("refs") == 0 and "std::fmt::" not in body.name:
                    n += 1
                    site0 = mir.Site(body, 0, None)
                    fates = result_fate(body, None, {i}, None)
                    ok = all(f[0] for f in fates)
                    why = "; ".join(sorted({f[1] for f in fates if f[0] == ok}))[:300]
                    bad_site = next((f[2] for f in fates if not f[0] and f[2] is not None), site0)
                    run.ob("%s.result-propagated" % prefix, "%s: parameter %d" % (body.name, i), ok, why, site=bad_site if not ok else mir.line_of(body.span),
                           key="%s.result|%s|param%d|%s" % (prefix, body.name, i, "ok" if ok else norm(why)[:60]))
        for cs in body.calls():
            t = cs.node
            dty = t["dest"].get("ty", {})
            name = cname(t)
            if name in ("std::ops::Try::branch", "std::ops::FromResidual::from_residual") or name in TRANSFORMERS:
                continue
            if name in ("std::fmt::Write::write_fmt", "std::fmt::Write::write_str", "std::fmt::Write::write_char") and \
                    arg_ty(body, t["args"][0]).get("adt") == "std::string::String":
                continue  # writing into a String cannot fail
            if name.startswith("std::fmt::") or name.startswith("core::fmt::"):
                # fmt::Result inside Display/Debug impls: returned to the formatter
                if is_result(dty) and t["dest"]["l"] != 0:
                    pass
                else:
                    continue
            if is_result(dty):
                n += 1
                if t["dest"]["l"] == 0 and not t["dest"]["p"]:
                    run.ob("%s.result-propagated" % prefix, "%s: %s" % (body.name, name), True, "call result is the function's return value",
                           site=cs, key="%s.result|%s|%s|ret" % (prefix, body.name, name))
                    continue
                fates = result_fate(body, cs, {t["dest"]["l"]}, cs)
                ok = all(f[0] for f in fates)
                why = "; ".join(sorted({f[1] for f in fates if f[0] == ok}))[:400]
                bad_site = next((f[2] for f in fates if not f[0]), cs)
                run.ob("%s.result-propagated" % prefix, "%s: %s" % (body.name, name), ok, why, site=bad_site if not ok else cs,
                       key="%s.result|%s|%s|%s" % (prefix, body.name, name, "ok" if ok else norm(why)[:70]))
            elif is_opt_result(dty):
                n += 1
                # iterator item: Some payload must be matched / propagated
                d = t["dest"]["l"]
                items = set()
                other_use = []
                for s in body.sites():
                    if s == cs:
                        continue
                    for p in mir.site_reads(s):
                        cp = body.canon(p)
                        if cp["l"] != d:
                            continue
                        nn = s.node
                        if s.si is not None and nn["k"] == "assign" and nn["rv"]["k"] == "discr":
                            continue
                        if s.si is not None and nn["k"] == "assign" and nn["rv"]["k"] == "use" and any(
                                isinstance(e, dict) and e.get("dc") == "Some" for e in cp["p"]) and not nn["place"]["p"]:
                            items.add(nn["place"]["l"])
                            continue
                        other_use.append(s)
                if other_use:
                    run.ob("%s.result-propagated" % prefix, "%s: %s item" % (body.name, name), False,
                           "Option<Result> item used other than by matching Some(item): %s" % other_use[:2], site=cs,
                           key="%s.result|%s|%s|item-other" % (prefix, body.name, name))
                    continue
                if not items:
                    run.ob("%s.result-propagated" % prefix, "%s: %s item" % (body.name, name), False,
                           "items (each a Result) are never inspected", site=cs, key="%s.result|%s|%s|item-unused" % (prefix, body.name, name))
                    continue
                fates = result_fate(body, cs, items, cs)
                ok = all(f[0] for f in fates)
                why = "; ".join(sorted({f[1] for f in fates if f[0] == ok}))[:400]
                bad_site = next((f[2] for f in fates if not f[0]), cs)
                run.ob("%s.result-propagated" % prefix, "%s: %s item" % (body.name, name), ok, why, site=bad_site if not ok else cs,
                       key="%s.result|%s|%s|item|%s" % (prefix, body.name, name, "ok" if ok else norm(why)[:70]))
            # iterator adapters over iterators of Results
            if method(t) in ITER_SWALLOWERS and name.startswith("std::iter::"):
                sty = self_ty(t).get("s", "")
                if "Attributes" in sty or "Result<" in sty:
                    run.ob("%s.result-propagated" % prefix, "%s: %s" % (body.name, name), False,
                           "iterator of Results (%s) passed through `%s`: errors are silently skipped" % (sty, method(t)), site=cs,
                           key="%s.result|%s|%s|adapter" % (prefix, body.name, name))
        # fn items that discard errors used as values
        for s in body.sites():
            for o in mir.site_operands(s):
                c = o.get("const")
                if c and c["ty"].get("fndef"):
                    fn = norm(c["ty"]["fndef"])
                    if fn.startswith("std::result::Result::") and fn.rsplit("::", 1)[1] in SWALLOWERS:
                        run.ob("%s.result-propagated" % prefix, "%s: fn item %s" % (body.name, fn), False,
                               "`%s` used as a function value (discards errors of every item it is applied to)" % fn, site=s,
                               key="%s.result|%s|%s|fnitem" % (prefix, body.name, fn))
    return n
