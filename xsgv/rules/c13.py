"""C13 - serde-xml-rs preset: binding-key agreement only (thin static clause)."""
from . import c10, deps, renderer

EXPLANATION = (
    "Only the binding-key agreement clause is decided (see C02): the serde-xml-rs preset's text_identifier must be a key the "
    "locked serde-xml-rs deserializer emits for character data, and its attribute_prefix must be empty because that crate binds "
    "attributes by plain name; plus R10.2 (the renderer binds through these fields). NOT decided: compilation, from_str success.")


def run(ctx):
    r = ctx.run
    r.explanation = EXPLANATION
    lib = ctx.lib
    deps.check_preset(r, lib, "serde_xml_rs", "serde-xml-rs", False)
    R = renderer.Renderer(lib)
    r.ob("A6.renderer-model", "library", R.ok, "renderer recognised" if R.ok else "renderer shape not recognised: %s" % R.problems, key="A6.model")
    if R.ok:
        c10.use_rules(r, R)
        c10.rename_rules(r, R)
