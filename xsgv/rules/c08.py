"""C08 - errors are reported faithfully and only when the input is at fault (static part)."""
from .. import fmt, mir
from ..mir import strip, term_of, term_s
from . import events, results
from .common import arg_ty, cname, method, norm, self_ty

EXPLANATION = (
    "A3 error discipline over the MIR of every library body: each call that returns Result (and each Option<Result> iterator "
    "item) must be `?`-propagated, returned, map_err-ed and then propagated, or matched with the Err payload flowing into the "
    "returned Err on every path (path walk with variant tracking). Closed inventory of ParserError constructor sites with "
    "provenance rules (QuickXmlError = (reader.buffer_position(), the Err payload of the same reader call) in the Err arm; "
    "AttrError = Err payload of an attribute-iterator item; FromUtf8Error = map_err on String::from_utf8; ParsingError only on "
    "the None outcome of first()/remove_child after the event loop). Zero-count rules: no lossy/unchecked UTF-8 conversion, no "
    "reader configuration, ignored event kinds (Comment/Decl/PI/DocType) have no effect and cannot return. Display shows both "
    "fields of QuickXmlError. NOT decided: that quick-xml's own verdicts are right.")

LOSSY = ("from_utf8_lossy", "from_utf8_unchecked", "to_string_lossy", "from_utf8_lossy_owned", "decode", "unescape",
         "unescape_with", "decode_and_unescape_value", "unescape_value", "escape", "partial_escape", "minimal_escape")
CONFIG = ("config_mut", "with_checks", "html", "trim_text", "trim_text_end", "expand_empty_elements", "check_end_names",
          "check_comments", "trim_markup_names_in_closing_tags", "allow_unmatched_ends", "config")


def inventory(run, lib, ev):
    n = 0
    for body in lib.real_bodies():
        if "std::fmt::Debug" in body.name or "std::fmt::Display" in body.name or "std::clone::Clone" in body.name:
            continue
        for s in body.assigns():
            rv = s.node["rv"]
            if rv["k"] == "agg" and rv.get("adt") == "parser::ParserError":
                n += 1
                v = rv["variant"]
                ok, why = _provenance(lib, ev, body, s, v, [term_of(body, o) for o in rv["ops"]])
                if not ok and body.kind == "closure":
                    # a closure handed to an iterator adapter sees its item only as a parameter: judge the site where the
                    # closure runs, in the owner's normal form (adapters made explicit, the closure spliced in)
                    owner = lib.bodies.get(body.name.split("::{closure")[0])
                    if owner is not None:
                        from .common import normal_form
                        nf = normal_form(lib, owner)
                        spn = (s.node.get("span") or {}).get("s")
                        twins = [s2 for s2 in nf.assigns() if s2.node["rv"]["k"] == "agg" and s2.node["rv"].get("adt") == "parser::ParserError" and
                                 s2.node["rv"]["variant"] == v and spn is not None and (s2.node.get("span") or {}).get("s") == spn]
                        if twins:
                            res = [_provenance(lib, ev, nf, s2, v, [term_of(nf, o) for o in s2.node["rv"]["ops"]]) for s2 in twins]
                            if all(x[0] for x in res):
                                ok, why = True, res[0][1] + " (closure judged where the adapter chain runs it)"
                run.ob("R8.2.error-constructor", "%s: ParserError::%s" % (body.name, v), ok, why, site=s,
                       key="R8.2|%s|%s|%s" % (body.name, v, "ok" if ok else norm(why)[:60]))
        for s in body.sites():
            for o in mir.site_operands(s):
                c = o.get("const")
                if c and norm(c["ty"].get("fndef", "")).startswith("parser::ParserError::"):
                    n += 1
                    v = norm(c["ty"]["fndef"]).rsplit("::", 1)[1]
                    ok, why = _fn_item_provenance(body, s, v)
                    run.ob("R8.2.error-constructor", "%s: ParserError::%s (as function value)" % (body.name, v), ok, why, site=s,
                           key="R8.2|%s|%s|fnitem|%s" % (body.name, v, "ok" if ok else norm(why)[:60]))
    return n


def _fn_item_provenance(body, s, v):
    n = s.node
    if s.si is None and n["k"] == "call" and cname(n) == "std::result::Result::map_err":
        src = strip(term_of(body, n["args"][0]))
        if v == "FromUtf8Error" and src[0] == "call" and src[1] in ("std::string::String::from_utf8",):
            return True, "map_err(ParserError::FromUtf8Error) applied directly to String::from_utf8 (strict conversion)"
        if v == "AttrError":
            item = src
            if item[0] == "proj" and item[1][0] == "call" and item[1][1] == "std::iter::Iterator::next" and \
                    "attributes::Attributes" in self_ty(item[1][3].node).get("s", ""):
                return True, "map_err(ParserError::AttrError) applied to an item of the attribute iterator"
        return False, "ParserError::%s mapped over the error of `%s`" % (v, term_s(src)[:60])
    return False, "ParserError::%s used as a function value outside map_err" % v


def _err_payload_of(t, callee_names):
    """t == ((call X) [as Some .0] as Err .0)"""
    t = strip(t)
    if t[0] != "proj":
        return None
    pk = [e for e in t[2] if e != "*"]
    base = strip(t[1])
    if base[0] == "call" and base[1] in callee_names and any(e[0] == "dc" and e[1] == "Err" for e in pk):
        return base
    return None


def _provenance(lib, ev, body, s, v, fields):
    if v == "QuickXmlError":
        if ev.ok and body.kind == "closure" and ev.shape.get("map_err") is not None:
            # map_err(|e| QuickXmlError(reader.buffer_position(), e)) applied to the reader call's Result
            me = ev.shape["map_err"]
            clo = arg_ty(ev.body, me.node["args"][1]).get("closure")
            if clo != body.name:
                return False, "QuickXmlError constructed in a closure that is not the map_err of the reader call"
            pos = strip(fields[0])
            if not (pos[0] == "call" and pos[1] == "quick_xml::Reader::buffer_position"):
                return False, "position field is %s, not reader.buffer_position()" % term_s(pos)
            cap = strip(term_of(ev.body, me.node["args"][1]))
            rd = strip(term_of(ev.body, ev.read.node["args"][0]))
            cap_ok = cap[0] == "agg" and any(mir.same_place_term(x, rd) for x in cap[3].values()) and \
                any(st[0] == "proj" and st[1] == ("arg", 1) for st in mir.subterms(pos[2][0]))
            if not cap_ok:
                return False, "buffer_position() is not read from the captured reader of the failing call"
            if strip(fields[1]) != ("arg", 2):
                return False, "error field is not the error passed to map_err"
            return True, "map_err(|e| (reader.buffer_position(), e)) on the Result of the same read_event_into call"
        if not ev.ok or body is not ev.body:
            return False, "QuickXmlError constructed outside the event loop body"
        pos = strip(fields[0])
        if not (pos[0] == "call" and pos[1] == "quick_xml::Reader::buffer_position"):
            return False, "position field is %s, not reader.buffer_position()" % term_s(pos)
        rd = strip(term_of(body, ev.read.node["args"][0]))
        if not mir.same_place_term(pos[2][0], rd):
            return False, "buffer_position() is read from a different reader than the one that reported the error"
        err = _err_payload_of(fields[1], (cname(ev.read.node),))
        if err is None or err[3] != ev.read:
            return False, "error field is %s, not the Err payload of the reader call" % term_s(strip(fields[1]))[:80]
        errb = ev.err_block
        if errb is None or s.bb not in body.reach_from(errb, avoid={ev.header}):
            return False, "constructed outside the Err arm of the reader call"
        if pos[3].bb not in body.reach_from(errb, avoid={ev.header}):
            return False, "buffer_position() is sampled before the failing read, not when the error is reported"
        return True, "(reader.buffer_position(), Err payload of the same read_event_into call) in its Err arm"
    if v == "AttrError":
        err = _err_payload_of(fields[0], ("std::iter::Iterator::next",))
        if err is not None and "attributes::Attributes" in self_ty(err[3].node).get("s", ""):
            return True, "payload is the Err payload of an item of the attribute iterator"
        return False, "AttrError payload %s is not the Err of an attribute-iterator item" % term_s(strip(fields[0]))[:80]
    if v == "FromUtf8Error":
        err = _err_payload_of(fields[0], ("std::string::String::from_utf8",))
        if err is not None:
            return True, "payload is the Err payload of String::from_utf8"
        return False, "FromUtf8Error payload is not the Err of String::from_utf8"
    if v == "ParsingError":
        if ev.ok and body is ev.body:
            return False, "ParsingError constructed inside the event loop (would reject well-formed input)"
        # control dependent on the None outcome of first()/remove_child
        for (a, succ) in body.transitive_control_deps(s.bb):
            sw = mir.switch_enum(body, a)
            if sw is None or sw["enum"] != "std::option::Option":
                continue
            if mir.variant_target(sw, body, "None") != succ:
                continue
            src = strip(term_of(body, sw["place"]))
            if src[0] == "call" and (src[1] in ("core::slice::first", "element::Element::remove_child", "element::Element::get_child")):
                return True, "only on the None outcome of `%s` after the event loop returned" % src[1].split("::")[-1]
        # or: this body is a pure error constructor used only as `ok_or_else(<this fn>)` / `ok_or(<this fn>())` on such an Option
        uses = []
        for b2 in lib.real_bodies():
            for s2 in b2.sites():
                for o in mir.site_operands(s2):
                    cst = o.get("const")
                    if cst and (cst["ty"].get("fndef") == body.name or cst["ty"].get("closure") == body.name):
                        uses.append((b2, s2))
                    pl = mir.op_place(o)
                    if pl is not None and (pl.get("ty") or {}).get("closure") == body.name and s2.si is None:
                        uses.append((b2, s2))
                if s2.si is None and s2.node["k"] == "call" and s2.node["callee"].get("path") == body.name:
                    uses.append((b2, s2))
        good = bool(uses) and len(list(body.calls())) <= 3
        for (b2, s2) in uses:
            if not (s2.si is None and s2.node["k"] == "call" and cname(s2.node) in ("std::option::Option::ok_or_else", "std::option::Option::ok_or")):
                good = False
                continue
            src = b2.origins(s2.node["args"][0], transparent=lambda n: cname(n) in ("std::option::Option::map", "std::option::Option::cloned"))
            if not any(o[0] == "call" and (cname(o[1].node) in ("core::slice::first",) or cname(o[1].node).endswith("Element::remove_child")) for o in src):
                good = False
            if ev.ok and b2 is ev.body:
                good = False
        if good:
            return True, "error constructor used only to turn the None of first()/remove_child into the no-root error (ok_or_else)"
        return False, "ParsingError is not confined to the no-root outcome (None of first()/remove_child)"
    return False, "unclassified error constructor ParserError::%s" % v


def forbidden_calls(run, lib, names, rule, what):
    hits = 0
    total = 0
    for body in lib.real_bodies():
        for cs in body.calls():
            total += 1
            if method(cs.node) in names and not cname(cs.node).startswith("element::") and not cname(cs.node).startswith("parser::"):
                if method(cs.node) in ("config", "html", "decode", "escape") and not cname(cs.node).startswith("quick_xml::"):
                    continue
                hits += 1
                run.ob(rule, "%s: %s" % (body.name, cname(cs.node)), False, what % cname(cs.node), site=cs,
                       key="%s|%s|%s" % (rule, body.name, cname(cs.node)))
    run.ob(rule, "library (%d call sites)" % total, True, "no call to any of: %s" % ", ".join(names[:8]) + " ...",
           key="%s|zero" % rule, nontrivial=True)
    return hits


def run(ctx):
    r = ctx.run
    r.explanation = EXPLANATION
    lib = ctx.lib
    ev = events.EventLoop(lib)
    r.ob("A4.event-loop", "library", ev.ok,
         "exactly one body drives the reader and matches its Result<Event> directly (%s)" % (ev.body.name if ev.ok else
         "found %d reader call(s) or the match is not direct" % len(ev.cands)),
         site=ev.read if ev.ok else None, key="A4.event-loop")
    n = results.scan_results(r, lib)
    r.count("Result-producing call sites", n)
    ni = inventory(r, lib, ev) if ev.ok else 0
    r.count("ParserError constructor sites", ni)
    forbidden_calls(r, lib, LOSSY, "R8.3.strict-conversion", "`%s` converts or unescapes leniently: invalid input would be accepted or altered")
    forbidden_calls(r, lib, CONFIG, "R8.4.default-checks", "`%s` changes the reader/attribute checks that decide which inputs are errors")
    if ev.ok:
        b = ev.body
        for v in ev.variants:
            cls = events.CLASS.get(v)
            if cls is None:
                r.ob("A4.event-class", "Event::%s" % v, False, "event kind `%s` of the locked quick-xml is not classified" % v,
                     site=ev.read, key="A4.event-class|%s" % v)
                continue
            if cls == "ignored":
                calls = ev.calls(v)
                writes = ev.writes(v)
                ret = ev.can_return(v)
                ok = not calls and not writes and not ret
                r.ob("R8.5.ignored-event", "Event::%s" % v, ok,
                     "arm has no call, no write and continues the loop" if ok else
                     "ignored event kind has effects: calls=%s writes=%s returns=%s" % ([cname(c.node) for c in calls][:3], [w.loc() for w in writes][:3], ret),
                     site=mir.Site(b, ev.target(v), None) if ev.target(v) is not None else None, key="R8.5|%s" % v)
        # finish class returns Ok(root)
        for v in ("Eof", "End"):
            if v in ev.variants:
                t = ev.target(v)
                outs = mir.walk_paths(b, t, lambda bb, st: ("ret", st.get(0)) if b.blocks[bb]["term"]["k"] == "return" else (
                    ("loop", bb) if bb == ev.header else None)) if t is not None else [("none",)]
                ok = all(o == ("ret", "Ok") for o in outs) and outs
                r.ob("PM1.finish-event", "Event::%s" % v, bool(ok), "returns Ok(current element)" if ok else "outcomes: %s" % (outs[:3],),
                     site=mir.Site(b, t, None) if t is not None else None, key="PM1.finish|%s" % v)
    # character data is converted (hence UTF-8-checked) unconditionally: PM1 chardata class
    from . import pm
    R = pm.Roles(lib)
    if R.ok:
        pm.pm1_event_classes(r, R)
    # R8.6 no-root detection in the public entry points
    for body in lib.real_bodies():
        for cs in body.calls():
            if cname(cs.node) == "core::slice::first":
                nxt = body.succs(cs.bb)
                sw = mir.switch_enum(body, nxt[0]) if len(nxt) == 1 else None
                if sw is None:
                    continue
                none = mir.variant_target(sw, body, "None")
                f = lib.fns.get(body.name, {})
                if none is None or not results.is_result(f.get("output", {})):
                    continue
                ok, why = results.err_path_ok(body, none, None, set())
                r.ob("R8.6.no-root-is-error", body.name, ok, "None outcome of children().first(): " + why, site=cs,
                     key="R8.6|%s|%s" % (body.name, "ok" if ok else "bad"))
    # R8.7 Display
    disp = [b for b in lib.real_bodies() if b.name == "<parser::ParserError as std::fmt::Display>::fmt"]
    if disp:
        d = disp[0]
        sw = mir.switch_enum(d, 0)
        for v in (sw["variants"] if sw else []):
            t = mir.variant_target(sw, d, v)
            blocks = d.reach_from(t) if t is not None else set()
            # fields of this variant read in its arm (possibly stored in a local and formatted after the match)
            arm_only = blocks - set().union(*[d.reach_from(mir.variant_target(sw, d, v2)) for v2 in sw["variants"] if v2 != v and mir.variant_target(sw, d, v2) is not None and
                                              mir.variant_target(sw, d, v2) != t] or [set()])
            shown = set()
            written = any(d.blocks[bb]["term"]["k"] == "call" and method(d.blocks[bb]["term"]) in ("write_fmt", "write_str", "fmt") for bb in blocks)
            for bb in blocks:
                tt = d.blocks[bb]["term"]
                if tt["k"] == "call" and method(tt) in ("write_fmt", "write_str", "fmt"):
                    for a in tt["args"]:
                        for st in mir.subterms(term_of(d, a)):
                            if st[0] == "proj":
                                for e in st[2]:
                                    if e != "*" and e[0] == "f" and e[2] == v:
                                        shown.add(e[3])
            if written:
                for bb in arm_only:
                    for si in range(len(d.blocks[bb]["stmts"])):
                        for pl in mir.site_reads(mir.Site(d, bb, si)):
                            for e in d.canon(pl)["p"]:
                                if isinstance(e, dict) and "f" in e and e.get("variant") == v and e.get("adt", "").endswith("ParserError"):
                                    shown.add(e["f"])
            adt = lib.adts["parser::ParserError"]
            nf = len([x for x in adt["variants"] if x["name"] == v][0]["fields"])
            ok = len(shown) == nf
            r.ob("R8.7.display-shows-fields", "ParserError::%s" % v, ok,
                 "Display formats %d of %d field(s)" % (len(shown), nf), site=mir.Site(d, t, None) if t is not None else None,
                 key="R8.7|%s" % v)
    r.trust("quick-xml 0.37.5 reports exactly the syntax/attribute errors of its default configuration; its event stream is the reference")
    r.trust("String::from_utf8 is the strict UTF-8 check")
    r.assume("the caller supplies a default-configured reader (the library neither sets nor reads the configuration: R8.4)")
