"""C03 - Optional / Vec / text inference is exact (static part: mechanism conformance in both directions)."""
from . import c15, nondet, pm

EXPLANATION = (
    "NOT decided: the iff itself (it depends on the counter trick over all interleavings of occurrences). Decided: the parser-"
    "mechanism pack PM - dependence facts about today's mechanism, each a necessary condition of exactness: event classes (PM1), "
    "Start descends / Empty does not, same seen list (PM2), seen list per activation and recorded on every Ok path (PM5), "
    "set_multiple exactly under seen.contains(name) (PM6), occurrence counter incremented once per repeat (PM7), snapshot before / "
    "demotion after exactly when the child pre-existed (PM8), snapshot = exactly the Mandatory children with their counters (PM9), "
    "demotion set = unchanged counter or Mandatory-and-absent, nothing else, each demoted on the same parent (PM10), Empty demotes with "
    "an empty snapshot (PM11), every attribute key collected and merged/constructed (PM12), re-insertion (PM15), one field per "
    "attribute/child with Option iff Optional, Vec iff not standalone, text field iff text, String iff text-only (PM16), attribute "
    "necessity = conjunction (C15 outcome table). A redesign of the mechanism is reported as 'mechanism not recognised'.")


def run(ctx):
    r = ctx.run
    r.explanation = EXPLANATION
    pm.run_all(ctx)
    from . import c16
    c16.tree_contracts(r, ctx.lib)
    c15.check_merge(r, ctx.lib)
    r.assume("conformance to today's mechanism: the rules are the frozen, hand-confirmed instance table of DESIGN.md section 4 (PM1-PM16)")
