"""Thorough-tier extras: positive controls for zero-count rules, clippy cross-reference of the
site enumeration, stack budget of the recursive cycles, sensitivity run over the seeded variants."""
import json
import os
import re
import shutil
import subprocess
import tempfile

from . import extract, mir, report
from .rules import nondet, panics, results

VERIF = extract.VERIF


def _driver_on(src_dir, tag):
    """run the driver over an arbitrary small crate; returns Crate"""
    out = tempfile.mkdtemp(prefix="xsgv-pos-")
    tgt = tempfile.mkdtemp(prefix="xsgv-post-")
    try:
        extract.ensure_driver()
        env = dict(os.environ)
        env.update({"CARGO_NET_OFFLINE": "true", "CARGO_INCREMENTAL": "0", "LD_LIBRARY_PATH": extract.sysroot() + "/lib",
                    "RUSTFLAGS": "-Zmir-opt-level=0 -Awarnings", "CARGO_TARGET_DIR": tgt, "XSGV_OUT": out, "XSGV_TAG": tag,
                    "RUSTC_WORKSPACE_WRAPPER": extract.DRIVER, "XSGV_CRATES": "*"})
        env.pop("RUSTC_WRAPPER", None)
        r = subprocess.run(["cargo", "+nightly", "check", "--offline", "--lib"], cwd=src_dir, env=env, stdout=subprocess.PIPE, stderr=subprocess.STDOUT, text=True)
        files = [f for f in os.listdir(out) if f.endswith(".json")]
        if r.returncode != 0 or not files:
            raise report.CheckerFailure("positive-control crate did not compile under the driver:\n" + r.stdout[-2000:])
        return mir.load_crate(os.path.join(out, files[0]))
    finally:
        shutil.rmtree(out, ignore_errors=True)
        shutil.rmtree(tgt, ignore_errors=True)


def positive_controls(run, which):
    """the scanners used by property `which` must fire on selftest/positive"""
    crate = _driver_on(os.path.join(VERIF, "selftest", "positive"), "positive")
    probe = report.Run(run.prop, run.tier, run.level)
    probe.known = {}
    expect = {}
    if which in ("C05", "C11", "C06", "C10"):
        nondet.scan_hash(probe, crate)
        nondet.scan_other_sources(probe, crate)
        nondet.scan_shared_state(probe, crate)
        expect.update({"hash_order_into_vec": "A1.hash-iter", "hash_order_collect": "A1.hash-iter", "hash_first": "A1.hash-iter",
                       "address_as_value": "A1.nondet-source", "clock": "A1.nondet-source", "environment": "A1.nondet-source",
                       "COUNTER": "PM14", "Shared": "PM14"})
    if which == "C07":
        panics.scan_panics(probe, crate)
        panics.scan_loops(probe, crate)
        panics.scan_recursion(probe, crate)
        expect.update({"unwrap_it": "A2.panicky-call", "index_it": "A2.assert", "slice_it": "A2.panicky-call", "subtract": "A2.",
                       "divide": "A2.assert", "explicit_panic": "A2.panicky-call", "spin": "A2.loop-progress", "recurse": "A2.recursion"})
    if which in ("C08", "C12", "C06"):
        results.scan_results(probe, crate)
        expect.update({"swallow": "A3.result", "swallow2": "A3.result", "drop_result": "A3.result"})
    bad = [o for o in probe.obs if o["verdict"] != "holds"]
    for fn, rule in sorted(expect.items()):
        hit = [o for o in bad if fn in o["subject"] and o["rule"].startswith(rule)]
        run.ob("selftest.positive-control", "%s must be reported by %s" % (fn, rule), bool(hit),
               "the scanner reports the planted construct (%s)" % hit[0]["why"][:80] if hit else "the scanner did NOT report the planted construct: the zero-count rule is blind",
               key="positive|%s|%s" % (fn, rule))


CLIPPY_LINTS = {
    "C05": ["iter_over_hash_type"],
    "C07": ["unwrap_used", "expect_used", "panic", "indexing_slicing", "string_slice", "arithmetic_side_effects", "unreachable", "todo", "unimplemented"],
}


def clippy_cross_reference(run, which):
    """every site the opt-in clippy lints report must be a site this checker enumerated"""
    lints = CLIPPY_LINTS.get(which)
    if not lints:
        return
    scratch = tempfile.mkdtemp(prefix="xsgv-clippy-")
    try:
        src = os.path.join(scratch, "src-tree")
        extract.copy_tree(extract.REPO, src)
        env = dict(os.environ, CARGO_NET_OFFLINE="true", CARGO_TARGET_DIR=os.path.join(extract.WORK, "target", "clippy"))
        env.pop("RUSTC_WRAPPER", None)
        env.pop("RUSTC_WORKSPACE_WRAPPER", None)
        # force re-lint of the member crate
        tdir = os.path.join(extract.WORK, "target", "clippy", "debug", ".fingerprint")
        if os.path.isdir(tdir):
            for n in os.listdir(tdir):
                if extract.CRATE in n:
                    shutil.rmtree(os.path.join(tdir, n), ignore_errors=True)
        cmd = ["cargo", "+nightly", "clippy", "--offline", "--lib", "--bins", "--message-format=json", "--", "-A", "clippy::all"] + sum([["-W", "clippy::" + l] for l in lints], [])
        r = subprocess.run(cmd, cwd=src, env=env, stdout=subprocess.PIPE, stderr=subprocess.PIPE, text=True)
        sites = []
        for line in r.stdout.splitlines():
            try:
                m = json.loads(line)
            except Exception:
                continue
            msg = m.get("message") or {}
            code = (msg.get("code") or {}).get("code", "")
            if not code.startswith("clippy::"):
                continue
            for sp in msg.get("spans", []):
                if sp.get("is_primary") and sp["file_name"].startswith("src/") and not sp["file_name"].startswith("src/main.rs") and not sp["file_name"].startswith("src/args.rs"):
                    sites.append((code, "%s:%d" % (sp["file_name"], sp["line_start"])))
        if r.returncode != 0 and not sites and "error" in r.stderr:
            raise report.CheckerFailure("clippy failed: " + r.stderr[-1500:])
        mine = {o.get("site") for o in run.obs if o.get("site")}
        for code, site in sorted(set(sites)):
            ok = site in mine
            run.ob("cross-reference.clippy", "%s at %s" % (code, site), ok,
                   "site reported by %s is among the sites this checker enumerated" % code if ok else
                   "clippy reports %s here but this checker enumerated no obligation at that site: the enumeration is incomplete" % code,
                   site=site, key="clippy|%s|%s" % (code, site.split(":")[0]))
        run.count("clippy cross-reference sites", len(set(sites)))
    finally:
        shutil.rmtree(scratch, ignore_errors=True)


def stack_budget(run, lib):
    """frame sizes of the functions on recursive cycles (from -Zemit-stack-sizes), times nesting depth 200"""
    sccs = lib.sccs()
    names = sorted({n for c in sccs for n in c})
    readobj = os.path.join(extract.sysroot(), "lib", "rustlib", "x86_64-unknown-linux-gnu", "bin", "llvm-readobj")
    if not os.path.exists(readobj):
        run.note("llvm-readobj not available: stack budget skipped")
        return
    for profile, limit in (("dev", 8 * 1024 * 1024), ("release", 2 * 1024 * 1024)):
        scratch = tempfile.mkdtemp(prefix="xsgv-stack-")
        try:
            src = os.path.join(scratch, "src-tree")
            extract.copy_tree(extract.REPO, src)
            tgt = os.path.join(extract.WORK, "target", "stack")
            env = dict(os.environ, CARGO_NET_OFFLINE="true", CARGO_TARGET_DIR=tgt, RUSTFLAGS="-Zemit-stack-sizes -Awarnings", CARGO_INCREMENTAL="0")
            env.pop("RUSTC_WRAPPER", None)
            env.pop("RUSTC_WORKSPACE_WRAPPER", None)
            cmd = ["cargo", "+nightly", "build", "--offline", "--bins"] + (["--release"] if profile == "release" else [])
            r = subprocess.run(cmd, cwd=src, env=env, stdout=subprocess.PIPE, stderr=subprocess.STDOUT, text=True)
            binp = os.path.join(tgt, "release" if profile == "release" else "debug", extract.CRATE)
            if r.returncode != 0 or not os.path.exists(binp):
                raise report.CheckerFailure("stack-size build failed:\n" + r.stdout[-1500:])
            o = subprocess.run([readobj, "--stack-sizes", "--demangle", binp], stdout=subprocess.PIPE, stderr=subprocess.STDOUT, text=True).stdout
            sizes = {}
            cur = None
            for line in o.splitlines():
                m = re.search(r"Functions?: \[?(.*?)\]?$", line.strip())
                if m:
                    cur = m.group(1)
                m = re.search(r"Size: (0x[0-9A-Fa-f]+|\d+)", line)
                if m and cur:
                    sizes.setdefault(cur, 0)
                    sizes[cur] = max(sizes[cur], int(m.group(1), 0))
                    cur = None
            for comp in sccs:
                total = 0
                found = []
                for n in comp:
                    short = mir._norm(n).split("::")[-1]
                    modpath = mir._norm(n).rsplit("::", 1)[0].split("::")[-1]
                    cands = [v for k, v in sizes.items() if re.search(r"\b%s\b" % re.escape(short), k) and "closure" not in k and (modpath in k or True)]
                    if cands:
                        total += max(cands)
                        found.append("%s=%dB" % (short, max(cands)))
                if not found:
                    run.note("stack budget[%s]: no frame found for %s (inlined)" % (profile, comp))
                    continue
                need = 200 * total
                run.ob("A2.stack-budget[%s]" % profile, " + ".join(mir._norm(n).split("::")[-1] for n in comp), need <= limit,
                       "200 nesting levels x (%s) = %d KiB <= %d KiB (frames of the recursive cycle only; callee leaves not summed)" % (", ".join(found), need // 1024, limit // 1024)
                       if need <= limit else "200 nesting levels x (%s) = %d KiB exceeds the %d KiB default stack" % (", ".join(found), need // 1024, limit // 1024),
                       key="stack|%s|%s" % (profile, "+".join(mir._norm(n).split("::")[-1] for n in comp)))
        finally:
            shutil.rmtree(scratch, ignore_errors=True)


def sensitivity(run, which):
    """apply each seeded variant recorded for this property to a scratch copy of the *current* tree and
    require that this check reports it (guards against rules silently losing their anchors)"""
    roots = [os.path.join(VERIF, "selftest", "mutants"), os.path.join(VERIF, "seeded")]
    jobs = []
    for root in roots:
        if not os.path.isdir(root):
            continue
        for name in sorted(os.listdir(root)):
            d = os.path.join(root, name)
            mp = os.path.join(d, "meta.json")
            if not os.path.exists(mp) or not os.path.exists(os.path.join(d, "patch.diff")):
                continue
            meta = json.load(open(mp))
            props = meta.get("properties") or [meta.get("property")]
            # a variant is a sensitivity obligation for the properties it was written against
            # (cross-detections by other checks are recorded in meta but are not required)
            if which in props and (root.endswith("seeded") or meta.get("expect_rule") is not None):
                jobs.append((name, d, meta))
    from concurrent.futures import ThreadPoolExecutor

    def one(job):
        name, d, meta = job
        scratch = tempfile.mkdtemp(prefix="xsgv-sens-")
        try:
            tree = os.path.join(scratch, "repo")
            extract.copy_tree(extract.REPO, tree)
            r = subprocess.run(["patch", "-p1", "-s", "--no-backup-if-mismatch", "-i", os.path.join(d, "patch.diff")], cwd=tree, capture_output=True, text=True)
            if r.returncode != 0:
                return (name, "skip", "patch no longer applies")
            env = dict(os.environ, XSGV_REPO=tree, XSGV_NO_EVIDENCE="1", VERIF_TIER="quick")
            c = subprocess.run([os.path.join(VERIF, "check"), which, "--tier", "quick"], env=env, capture_output=True, text=True)
            fired = ("VIOLATION property=%s" % which) in c.stdout
            rules = sorted({l.strip().split(" ")[0] for l in c.stdout.splitlines() if l.strip().startswith("rule=")})
            return (name, "fired" if fired else ("failure" if c.returncode == 2 else "silent"), ",".join(rules)[:160])
        finally:
            shutil.rmtree(scratch, ignore_errors=True)
    with ThreadPoolExecutor(max_workers=8) as ex:
        for (name, verdict, info) in ex.map(one, jobs):
            if verdict == "skip":
                run.note("sensitivity: variant %s skipped (%s)" % (name, info))
                continue
            run.ob("selftest.sensitivity", "seeded variant %s" % name, verdict == "fired",
                   "applied to a scratch copy of the current tree, this check reports it (%s)" % info if verdict == "fired" else
                   "applied to a scratch copy of the current tree, this check stays %s: a rule lost its sensitivity" % verdict, key="sensitivity|%s" % name)
    run.count("sensitivity variants", len(jobs))
