"""python3 -m xsgv.show [--bin|--cfg tag] name-fragment...  : print MIR of matching bodies of /repo's current tree"""
import sys
from . import extract, pp

args = sys.argv[1:]
key = "lib"
tag = "default"
if "--bin" in args:
    key = "bin"
    args.remove("--bin")
if "--cfg" in args:
    i = args.index("--cfg")
    tag = args[i + 1]
    del args[i:i + 2]
if "--crate" in args:
    i = args.index("--crate")
    key = args[i + 1]
    del args[i:i + 2]
ds = "--desugar" in args
if ds:
    args.remove("--desugar")
nf = "--nf" in args
if nf:
    args.remove("--nf")
crates, th, _ = extract.load(tag)
for b in crates[key].bodies.values():
    if not args or any(a in b.name for a in args):
        if ds:
            from . import desugar
            b = desugar.desugar(crates[key], b)
        if nf:
            from .rules import common
            b = common.normal_form(crates[key], b)
        print(pp.body_s(b.j))
        print()
